#!/usr/bin/env python3
"""Replays every file under /verif/findings on the current /repo tree:
fixed findings must no longer violate, open ones must be recognised as known."""
import glob
import json
import os
import subprocess
import sys

ROOT = os.path.dirname(os.path.dirname(os.path.abspath(__file__)))
bad = 0
for path in sorted(glob.glob(os.path.join(ROOT, "findings", "*.json"))):
  r = subprocess.run([sys.executable, "-m", "simlat", "replay", path],
                     cwd=ROOT, stdout=subprocess.PIPE, stderr=subprocess.DEVNULL,
                     text=True)
  known = [l for l in r.stdout.splitlines() if l.startswith("KNOWN-FINDING")]
  viol = [l for l in r.stdout.splitlines() if l.startswith("VIOLATION")]
  fixed = ".fixed." in os.path.basename(path)
  ok = (not viol) and (fixed or known)
  print("%-70s %s" % (os.path.basename(path), "ok" if ok else "UNEXPECTED"),
        "(known)" if known else "", "(violates)" if viol else "")
  bad += 0 if ok else 1
sys.exit(1 if bad else 0)
