"""The simulation loop: generate -> execute -> check -> (minimise) -> replay.

A run is a pure function of (run_seed, code under /repo): the world spec and the
event list are drawn from named sub-streams of the run seed, every event owns
its own sub-seed, and logging never draws randomness or reads a clock.
"""
import collections
import contextlib
import hashlib
import json
import struct
import time
import traceback

import numpy as np

from . import env
from . import findings as findings_lib
from . import rng as rng_lib

SIMLAT_VERSION = 1


class HarnessError(Exception):
  """A failure of the simulator itself; never counted as a violation."""


class SutError(Exception):
  """An exception raised by the system under test (tfl / Keras / TF)."""

  def __init__(self, op, exc):
    super(SutError, self).__init__("%s: %s: %s" % (op, type(exc).__name__, exc))
    self.op = op
    self.exc_type = type(exc).__name__
    self.exc_text = str(exc)[:2000]
    self.tb = traceback.format_exc()[-4000:]


class Violation(object):
  """One observed breach of the property being decided."""

  def __init__(self, cls, detail, margin=None, tol=None, conditions=()):
    self.cls = cls
    self.detail = detail
    self.margin = margin
    self.tol = tol
    self.conditions = list(conditions)
    self.event = None
    self.finding = None

  def to_json(self):
    return {
        "class": self.cls,
        "event": self.event,
        "margin": _f(self.margin),
        "tol": _f(self.tol),
        "conditions": self.conditions,
        "detail": jsonable(self.detail),
        "finding": self.finding,
    }


def _f(x):
  if x is None:
    return None
  x = float(x)
  if x != x or x in (float("inf"), float("-inf")):
    return repr(x)
  return x


def jsonable(o):
  """Converts numpy / tuple containing structures to plain JSON values."""
  if isinstance(o, dict):
    return {str(k): jsonable(v) for k, v in o.items()}
  if isinstance(o, (list, tuple, set, frozenset)):
    return [jsonable(v) for v in o]
  if isinstance(o, np.ndarray):
    return jsonable(o.tolist())
  if isinstance(o, (np.floating,)):
    return _f(o)
  if isinstance(o, (np.integer,)):
    return int(o)
  if isinstance(o, (np.bool_,)):
    return bool(o)
  if isinstance(o, float):
    return _f(o)
  if isinstance(o, bytes):
    return o.hex()
  if o is None or isinstance(o, (str, int, bool)):
    return o
  return repr(o)


class Ctx(object):
  """Per-run context: logical clock, chained digest, counters."""

  def __init__(self, prop, run_seed, keep_log=False):
    self.prop = prop
    self.run_seed = run_seed
    self.t = 0  # logical clock: index of the event being executed
    self.micro = 0  # global sequence number of logged micro-events
    self._h = hashlib.blake2b(digest_size=16)
    self.keep_log = keep_log
    self.lines = []
    self.stats = collections.Counter()
    self.sig = []
    self.abs_states = set()
    self.steps = 0
    self.restarts = 0

  # -- logging (never draws randomness, never reads a clock) ---------------
  def log(self, tag, *parts):
    self.micro += 1
    self._h.update(("%d|%d|%s" % (self.t, self.micro, tag)).encode())
    parts = [(p + 0.0 if isinstance(p, np.ndarray) and p.dtype.kind == "f"
              else p) for p in parts]  # -0.0 and +0.0 are the same state
    for p in parts:
      if isinstance(p, np.ndarray):
        self._h.update(str(p.dtype).encode())
        self._h.update(struct.pack("<%dq" % p.ndim, *p.shape) if p.ndim else b"s")
        self._h.update(np.ascontiguousarray(p).tobytes())
      elif isinstance(p, bytes):
        self._h.update(p)
      else:
        self._h.update(repr(p).encode())
      self._h.update(b"\x1f")
    if self.keep_log:
      txt = []
      for p in parts:
        if isinstance(p, np.ndarray):
          txt.append("nd%s#%s" % (list(p.shape),
                                  hashlib.blake2b(np.ascontiguousarray(p).tobytes(),
                                                  digest_size=4).hexdigest()))
        else:
          txt.append(repr(p))
      self.lines.append("%d.%d %s %s" % (self.t, self.micro, tag, " ".join(txt)))

  def digest(self):
    return self._h.hexdigest()

  def fire(self, kind, n=1):
    self.stats["fault:" + kind] += n

  def reach(self, name, n=1):
    self.stats["reach:" + name] += n

  def count(self, name, n=1):
    self.stats[name] += n

  def token(self, tok):
    self.sig.append(tok)

  def abstract(self, state):
    self.abs_states.add(state)

  @contextlib.contextmanager
  def sut(self, op):
    """Marks a region that executes real tfl / Keras / TF code."""
    try:
      yield
    except (SutError, HarnessError):
      raise
    except Exception as e:  # pylint: disable=broad-except
      raise SutError(op, e)


WORLDS = {}


def register(cls):
  WORLDS[cls.NAME] = cls
  return cls


def worlds_for(prop):
  _load_worlds()
  return [w for w in WORLDS.values() if prop in w.PROPS]


_LOADED = {"done": False}


def _load_worlds():
  if _LOADED["done"]:
    return
  _LOADED["done"] = True
  import importlib
  for name in ("kfl", "modelworld"):
    try:
      importlib.import_module("simlat.worlds." + name)
    except ModuleNotFoundError as e:
      if ("simlat.worlds." + name) not in str(e):
        raise


def generate(prop, run_seed, tier="quick"):
  """Draws (world name, spec, events) for a run seed."""
  _load_worlds()
  s = rng_lib.Stream(run_seed, "world-kind")
  cands = worlds_for(prop)
  if not cands:
    raise RuntimeError("no world registered for %s" % prop)
  cands.sort(key=lambda c: c.NAME)
  wcls = s.weighted([(c, c.WEIGHT.get(prop, 1.0)) for c in cands])
  spec, events = wcls.generate(prop, run_seed, tier)
  for k, ev in enumerate(events):
    ev.setdefault("id", k)
  return wcls.NAME, spec, events


def run_one(prop, run_seed, world=None, spec=None, events=None, tier="quick",
            keep_log=False, findings=None, stop_at_violation=True,
            want_samples=False):
  """Executes one run. Returns a JSON-serialisable result dict."""
  _load_worlds()
  t0 = time.time()
  if spec is None:
    try:
      world, spec, events = generate(prop, run_seed, tier)
    except Exception as e:  # pylint: disable=broad-except
      # A generator slip voids the run (counted with the rejected
      # configurations, whose rate the batch driver bounds).
      return {
          "prop": prop, "run_seed": run_seed, "world": None, "spec": None,
          "n_events": 0, "executed": 0, "steps": 0, "restarts": 0,
          "violation": None, "known": [], "stats": {"generator_error": 1},
          "sig": "generator_error", "nontrivial": False,
          "rejected": "generator error: %r" % (e,), "abs_states": [],
          "digest": "generator_error", "wall_s": time.time() - t0,
      }
  wcls = WORLDS[world]
  if findings is None:
    findings = findings_lib.load()
  ctx = Ctx(prop, run_seed, keep_log=keep_log)
  ctx.log("seed", run_seed, world)
  env.reset_globals(rng_lib.derive(run_seed, "globals"))
  violation = None
  known = []
  executed = 0
  w = None
  rejected = None

  def handle(vs, ev_index):
    """Classifies violations; returns the first unknown one or None."""
    first = None
    for v in vs:
      v.event = ev_index
      f = findings_lib.match(findings, prop, v)
      if f is not None:
        v.finding = f["id"]
        known.append(v.to_json())
        ctx.count("known:" + f["id"])
        if w is not None:
          w.on_known(v, ctx)
      elif first is None:
        first = v
    return first

  try:
    try:
      ctx.t = 0
      w = wcls(prop, spec, ctx)
      vs = w.check(ctx, {"kind": "construct", "id": -1})
    except SutError as e:
      if e.exc_type == "ValueError":
        # The library rejected the configuration up front. None of the claimed
        # properties promises that a configuration is accepted (that is C16);
        # the run is void. The batch driver turns a high rejection rate into a
        # harness error so that this can never hide a regression silently.
        ctx.count("rejected_config")
        rejected = e.exc_text[:300]
        vs = []
      else:
        vs = [Violation("exception:%s@construct" % e.exc_type,
                        {"op": e.op, "text": e.exc_text, "tb": e.tb})]
    violation = handle(vs, 0)
    if violation is None and w is not None:
      for i, ev in enumerate(events):
        ctx.t = i + 1
        ctx.log("event", ev.get("id"), ev["kind"])
        try:
          w.apply(ev, ctx)
          vs = w.check(ctx, ev)
        except SutError as e:
          vs = [Violation("exception:%s@%s" % (e.exc_type, ev["kind"]),
                          {"op": e.op, "text": e.exc_text, "tb": e.tb})]
          vs = w.classify_exception(vs, ev, e, ctx)
        executed = i + 1
        violation = handle(vs, i + 1)
        if w.stop_requested:
          break
        if violation is not None and stop_at_violation:
          break
      if violation is None:
        ctx.t = executed + 1
        try:
          vs = w.finish(ctx)
        except SutError as e:
          vs = [Violation("exception:%s@finish" % e.exc_type,
                          {"op": e.op, "text": e.exc_text, "tb": e.tb})]
        violation = handle(vs, executed + 1)
  finally:
    if w is not None:
      try:
        w.close()
      except Exception:  # pylint: disable=broad-except
        pass
  sig = hashlib.blake2b("|".join(ctx.sig).encode(), digest_size=8).hexdigest()
  res = {
      "prop": prop,
      "run_seed": run_seed,
      "world": world,
      "spec": jsonable(spec),
      "n_events": len(events),
      "executed": executed,
      "steps": ctx.steps,
      "restarts": ctx.restarts,
      "violation": violation.to_json() if violation is not None else None,
      "known": known,
      "stats": dict(ctx.stats),
      "sig": sig,
      "nontrivial": bool(w is not None and w.nontrivial(ctx)),
      "rejected": rejected,
      "abs_states": sorted(repr(a) for a in ctx.abs_states),
      "digest": ctx.digest(),
      "wall_s": time.time() - t0,
  }
  if want_samples or violation is not None:
    res["events"] = jsonable(events)
  if keep_log:
    res["log"] = ctx.lines
  return res


class World(object):
  """Base class for simulated worlds."""

  NAME = "base"
  PROPS = ()
  WEIGHT = {}
  stop_requested = False

  @classmethod
  def generate(cls, prop, run_seed, tier):
    raise NotImplementedError

  def __init__(self, prop, spec, ctx):
    self.prop = prop
    self.spec = spec

  def apply(self, ev, ctx):
    raise NotImplementedError

  def check(self, ctx, ev):
    return []

  def finish(self, ctx):
    return []

  def on_known(self, v, ctx):
    pass

  def classify_exception(self, vs, ev, err, ctx):
    return vs

  def nontrivial(self, ctx):
    return ctx.steps >= 3 and any(k.startswith("fault:") for k in ctx.stats)

  def close(self):
    pass

  @classmethod
  def simplifications(cls, spec, events):
    """Yields (spec, events) candidates that are simpler than the given run."""
    return []


# ---------------------------------------------------------------------------
# Minimisation: ddmin over the event list, same violation class must persist.


def _same(res, cls):
  v = res.get("violation")
  return v is not None and v["class"] == cls


def minimise(prop, run_seed, world, spec, events, cls, budget_s=120.0,
             findings=None):
  """Returns (spec, events, result) of a smaller failing run."""
  t_end = time.time() + budget_s
  wcls = WORLDS[world]

  def fails(sp, evs):
    r = run_one(prop, run_seed, world=world, spec=sp, events=evs,
                findings=findings)
    return r if _same(r, cls) else None

  def trimmed(evs, r):
    """Events after the violating one never ran; drop them."""
    k = r["violation"]["event"]
    return evs[:k] if k is not None and 0 <= k < len(evs) else evs

  best = fails(spec, events)
  if best is None:
    return spec, events, None
  events = trimmed(events, best)
  n = 2
  while len(events) >= 1 and time.time() < t_end:
    chunk = max(1, len(events) // n)
    reduced = False
    for start in range(0, len(events), chunk):
      if time.time() >= t_end:
        break
      cand = events[:start] + events[start + chunk:]
      r = fails(spec, cand)
      if r is not None:
        events, best = trimmed(cand, r), r
        n = max(n - 1, 2)
        reduced = True
        break
    if not reduced:
      if chunk == 1:
        break
      n = min(n * 2, len(events))
  # Per-event and world simplifications proposed by the world class.
  changed = True
  while changed and time.time() < t_end:
    changed = False
    for sp, evs in wcls.simplifications(spec, events):
      if time.time() >= t_end:
        break
      r = fails(sp, evs)
      if r is not None:
        spec, events, best = sp, trimmed(evs, r), r
        changed = True
        break
  # Final single-event removal pass (simplification may have made events
  # redundant).
  i = 0
  while i < len(events) and time.time() < t_end:
    cand = events[:i] + events[i + 1:]
    r = fails(spec, cand)
    if r is not None:
      events, best = trimmed(cand, r), r
    else:
      i += 1
  best = fails(spec, events) or best
  return spec, events, best


def write_replay(path, verif_seed, run_index, res, spec, events, note=None):
  doc = {
      "simlat_version": SIMLAT_VERSION,
      "property": res["prop"],
      "verif_seed": verif_seed,
      "run_index": run_index,
      "run_seed": res["run_seed"],
      "world": res["world"],
      "spec": jsonable(spec),
      "events": jsonable(events),
      "violation": res["violation"],
      "digest": res["digest"],
      "note": note,
  }
  with open(path, "w") as f:
    json.dump(doc, f, indent=1, sort_keys=True)
  return doc


def replay(path, keep_log=False, findings=None):
  with open(path) as f:
    doc = json.load(f)
  res = run_one(doc["property"], doc["run_seed"], world=doc["world"],
                spec=doc["spec"], events=doc["events"], keep_log=keep_log,
                findings=findings)
  return doc, res
