"""Reach probes that must be non-zero in a thorough batch (>= 1000 runs).

A probe stuck at zero means the workload or the fault mix no longer reaches
what the oracle needs; the batch then ends as a harness error (exit 2), never
as a pass.
"""
_MODEL_FAULTS = [
    "fault:order_permute", "fault:partial_update", "fault:protocol_switch",
    "fault:lr_jump", "fault:keras_fit", "fault:finalize", "fault:crash_soft",
    "fault:lost_checkpoint", "fault:reload_weights", "fault:global_state_skew",
    "fault:checkpoint:memory", "fault:checkpoint:weights_h5",
    "fault:checkpoint:weights_v3", "fault:checkpoint:weights_tf",
    "fault:checkpoint:full_h5", "fault:checkpoint:keras",
    "fault:rebuild_from_user_code", "fault:clone_model",
    "reach:restore_from_non_newest",
    "reach:second_hop_restore",
]

# Every public tensorflow_lattice class that has get_config (39 of them; the
# abstract configs._Config is not instantiable) must have been rebuilt from its
# own config at least once in a thorough C11 batch.
ROUNDTRIP_CLASSES = [
    "aggregation_layer.Aggregation",
    "categorical_calibration_layer.CategoricalCalibration",
    "categorical_calibration_layer.CategoricalCalibrationConstraints",
    "cdf_layer.CDF",
    "configs.AggregateFunctionConfig",
    "configs.CalibratedLatticeConfig",
    "configs.CalibratedLatticeEnsembleConfig",
    "configs.CalibratedLinearConfig",
    "configs.DominanceConfig",
    "configs.FeatureConfig",
    "configs.RegularizerConfig",
    "configs.TrustConfig",
    "kronecker_factored_lattice_layer.BiasInitializer",
    "kronecker_factored_lattice_layer.KFLRandomMonotonicInitializer",
    "kronecker_factored_lattice_layer.KroneckerFactoredLattice",
    "kronecker_factored_lattice_layer.KroneckerFactoredLatticeConstraints",
    "kronecker_factored_lattice_layer.ScaleConstraints",
    "kronecker_factored_lattice_layer.ScaleInitializer",
    "lattice_layer.LaplacianRegularizer",
    "lattice_layer.Lattice",
    "lattice_layer.LatticeConstraints",
    "lattice_layer.LinearInitializer",
    "lattice_layer.RandomMonotonicInitializer",
    "lattice_layer.TorsionRegularizer",
    "linear_layer.Linear",
    "linear_layer.LinearConstraints",
    "parallel_combination_layer.ParallelCombination",
    "premade.AggregateFunction",
    "premade.CalibratedLattice",
    "premade.CalibratedLatticeEnsemble",
    "premade.CalibratedLinear",
    "pwl_calibration_layer.HessianRegularizer",
    "pwl_calibration_layer.LaplacianRegularizer",
    "pwl_calibration_layer.NaiveBoundsConstraints",
    "pwl_calibration_layer.PWLCalibration",
    "pwl_calibration_layer.PWLCalibrationConstraints",
    "pwl_calibration_layer.UniformOutputInitializer",
    "pwl_calibration_layer.WrinkleRegularizer",
    "rtl_layer.RTL",
]

REQUIRED = {
    "C07": [
        "reach:scale_zero_at_check",
        "reach:scale_all_nonpositive",
        "reach:scale_mixed_signs",
        "reach:stale_sign_present",
        "reach:legacy_kernel_before_scale",
        "reach:restore_from_older_snapshot",
        "reach:scale_entry_became_zero",
        "fault:sign_flip",
        "fault:order_permute",
        "fault:partial_update",
        "fault:protocol_switch",
        "fault:manual_constraint",
        "fault:raw_write",
        "fault:finalize",
        "fault:lr_jump",
        "fault:snapshot_restore",
        "fault:toggle_trainable",
    ],
    "C03": _MODEL_FAULTS + ["reach:stale_sign_present", "check:active"],
    "C11": _MODEL_FAULTS + [
        "fault:crash_hard", "fault:hard_restart", "fault:checkpoint:savedmodel",
        "reach:hard_restart_compared", "restore_compared",
        "objects_round_tripped",
    ] + ["roundtrip_class:" + c for c in ROUNDTRIP_CLASSES],
}
