#!/usr/bin/env python3
"""Sensitivity self-test: applies each patch to a scratch worktree of /repo
(outside /repo and /verif, removed afterwards) and runs the quick tier of the
properties it targets with VERIF_REPO pointing there. A mutant is caught if the
check exits 1 with a VIOLATION line.

usage: run_mutants.py [--props C03,C07] [--runs N] patch1.diff [patch2.diff ...]
Each patch may have a sibling .meta file whose first line lists properties.
"""
import argparse
import json
import os
import shutil
import subprocess
import sys
import tempfile
import time

ROOT = os.path.dirname(os.path.dirname(os.path.abspath(__file__)))


def run(cmd, **kw):
  return subprocess.run(cmd, stdout=subprocess.PIPE, stderr=subprocess.STDOUT,
                        text=True, **kw)


def main():
  ap = argparse.ArgumentParser()
  ap.add_argument("patches", nargs="+")
  ap.add_argument("--props", default=None)
  ap.add_argument("--runs", type=int, default=None)
  ap.add_argument("--seed", type=int, default=0)
  ap.add_argument("--workers", type=int, default=16)
  ap.add_argument("--json", default=None)
  a = ap.parse_args()
  results = []
  for patch in a.patches:
    patch = os.path.abspath(patch)
    name = os.path.basename(os.path.dirname(patch)) if os.path.basename(
        patch) == "patch.diff" else os.path.basename(patch)[:-5]
    props = a.props
    meta = patch[:-5] + ".meta"
    if props is None and os.path.exists(meta):
      props = open(meta).readline().strip()
    if props is None:
      mj = os.path.join(os.path.dirname(patch), "meta.json")
      if os.path.exists(mj):
        props = ",".join(json.load(open(mj))["properties"])
    props = (props or "C03,C07,C11").split(",")
    wt = tempfile.mkdtemp(prefix="simlat-mut-")
    os.rmdir(wt)
    rp = tempfile.mkdtemp(prefix="simlat-mut-replays-")
    try:
      r = run(["git", "-C", "/repo", "worktree", "add", "-q", "--detach", wt,
               "HEAD"])
      if r.returncode:
        print("worktree failed", r.stdout)
        return 2
      r = run(["git", "-C", wt, "apply", patch])
      if r.returncode:
        print("MUTANT %s: patch does not apply: %s" % (name, r.stdout))
        results.append({"mutant": name, "error": "patch does not apply"})
        continue
      for prop in props:
        env = dict(os.environ, VERIF_REPO=wt, VERIF_REPLAY_DIR=rp,
                   VERIF_SEED=str(a.seed), VERIF_WORKERS=str(a.workers))
        cmd = [sys.executable, "-m", "simlat", "check", prop, "--tier",
               "quick", "--no-evidence", "--no-determinism"]
        if a.runs:
          cmd += ["--runs", str(a.runs)]
        t0 = time.time()
        r = run(cmd, cwd=ROOT, env=env)
        lines = [l for l in r.stdout.splitlines()
                 if l.startswith(("VIOLATION", "  class=", "runs=",
                                  "HARNESS-ERROR"))]
        caught = r.returncode == 1 and any(l.startswith("VIOLATION")
                                           for l in lines)
        print("MUTANT %-45s %s exit=%d %s (%.0fs)" %
              (name, prop, r.returncode, "CAUGHT" if caught else "missed",
               time.time() - t0), flush=True)
        for l in lines[:6]:
          print("    " + l[:300])
        results.append({"mutant": name, "property": prop, "exit":
                        r.returncode, "caught": caught, "lines": lines[:8]})
    finally:
      run(["git", "-C", "/repo", "worktree", "remove", "--force", wt])
      shutil.rmtree(wt, ignore_errors=True)
      shutil.rmtree(rp, ignore_errors=True)
  run(["git", "-C", "/repo", "worktree", "prune"])
  if a.json:
    with open(a.json, "w") as f:
      json.dump(results, f, indent=1)
  return 0


if __name__ == "__main__":
  sys.exit(main())
