#!/usr/bin/env python3
"""Compares a junit xml from the baseline command against BASELINE.json."""
import json, sys
import xml.etree.ElementTree as ET
b = json.load(open('/root/.vp/BASELINE.json'))
t = ET.parse(sys.argv[1])
passed = set()
for tc in t.iter('testcase'):
  if not any(c.tag in ('failure', 'error', 'skipped') for c in tc):
    passed.add(tc.get('classname') + '::' + tc.get('name'))
sp = set(b['stable_pass'])
missing = sorted(sp - passed)
print('passed=%d stable=%d missing_from_stable=%d extra=%d' %
      (len(passed), len(sp), len(missing), len(passed - sp)))
for m in missing[:20]:
  print('  MISSING', m)
sys.exit(1 if missing else 0)
