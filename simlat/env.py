"""Process-level seams: TF runtime configuration, repo selection, global RNGs.

The simulator owns: thread counts (1/1), op determinism, the three global
RNGs (Python `random`, numpy global, TF global seed) and the Keras session
(uid counters).  tensorflow_lattice is imported from VERIF_REPO (default
/repo), i.e. from the current working tree - there is no build step.
"""
import os
import sys

_STATE = {"ready": False}


def repo_root():
  return os.path.abspath(os.environ.get("VERIF_REPO", "/repo"))


def pre_import_env():
  os.environ.setdefault("TF_CPP_MIN_LOG_LEVEL", "3")
  os.environ.setdefault("TF_ENABLE_ONEDNN_OPTS", "0")
  os.environ.setdefault("CUDA_VISIBLE_DEVICES", "")
  os.environ.setdefault("OMP_NUM_THREADS", "1")
  os.environ.setdefault("TF_NUM_INTRAOP_THREADS", "1")
  os.environ.setdefault("TF_NUM_INTEROP_THREADS", "1")
  os.environ.setdefault("TENSORFLOW_LATTICE_VERIF", "1")
  os.environ.setdefault("ABSL_MIN_LOG_LEVEL", "3")
  os.environ.setdefault("GLOG_minloglevel", "3")


def setup():
  """Imports TF/tfl once per process with the simulator's settings."""
  if _STATE["ready"]:
    return _STATE
  pre_import_env()
  root = repo_root()
  if root not in sys.path or sys.path[0] != root:
    sys.path.insert(0, root)
  import logging
  import warnings
  warnings.filterwarnings("ignore")
  logging.getLogger("tensorflow").setLevel(logging.ERROR)
  try:
    import absl.logging
    absl.logging.set_verbosity(absl.logging.ERROR)
  except Exception:  # pylint: disable=broad-except
    pass
  import tensorflow as tf
  tf.get_logger().setLevel("ERROR")
  try:
    tf.config.threading.set_intra_op_parallelism_threads(1)
    tf.config.threading.set_inter_op_parallelism_threads(1)
  except RuntimeError:
    pass
  try:
    tf.config.experimental.enable_op_determinism()
  except Exception:  # pylint: disable=broad-except
    pass
  import tf_keras as keras
  import tensorflow_lattice as tfl
  tfl_file = os.path.abspath(tfl.__file__)
  if not tfl_file.startswith(root + os.sep):
    raise RuntimeError("tensorflow_lattice imported from %s, expected under %s" %
                       (tfl_file, root))
  _STATE.update(ready=True, tf=tf, keras=keras, tfl=tfl, root=root)
  return _STATE


def reset_globals(seed):
  """Pins every process-global source of nondeterminism for one run."""
  st = setup()
  st["keras"].backend.clear_session()
  st["keras"].utils.set_random_seed(int(seed) % (2**31 - 1))


def mods():
  st = setup()
  return st["tf"], st["keras"], st["tfl"]
