"""World builders: generated specs -> real tfl models, plus oracle descriptors.

A builder offers
  gen(stream, tier)          -> JSON spec (only configurations that
                                verify_config and the layer constructors accept)
  build(spec)                -> keras.Model (real tfl code)
  features(spec)             -> oracle descriptors, one per model input
  bounds(spec)               -> (output_min, output_max) promised for the output
"""
import numpy as np

from .. import env


def _r(x, nd=3):
  return float(round(float(x), nd))


# ---------------------------------------------------------------------------
# Feature specs


def gen_keypoints(s, n=None):
  n = n or s.integer(2, 6)
  start = _r(s.uniform(-5.0, 5.0), 2)
  kps = [start]
  for _ in range(n - 1):
    kps.append(_r(kps[-1] + s.log10_uniform(-0.7, 0.5), 2))
  # Strictly increasing after rounding.
  for i in range(1, len(kps)):
    if kps[i] <= kps[i - 1]:
      kps[i] = _r(kps[i - 1] + 0.05, 2)
  return kps


def gen_numeric_feature(s, name, lattice_size, allow_unimodal, p_mono=0.7):
  kps = gen_keypoints(s)
  mono = 0
  if s.chance(p_mono):
    mono = s.choice([1, -1])
  spelled = mono
  if s.chance(0.5):
    spelled = {1: "increasing", -1: "decreasing", 0: "none"}[mono]
  always = bool(mono == 0 and s.chance(0.3))
  convexity = 0
  kp_type = "fixed"
  if s.chance(0.25):
    convexity = s.choice([1, -1, "convex", "concave"])
  elif s.chance(0.3):
    kp_type = "learned_interior"
  eff_mono = mono != 0 or always
  clamp_min = bool(eff_mono and s.chance(0.2))
  clamp_max = bool(eff_mono and s.chance(0.2))
  default = None
  if s.chance(0.3):
    default = s.choice([_r(kps[0] - 1.0, 2), -1.0, _r(kps[-1] + 2.0, 2),
                        _r((kps[0] + kps[-1]) / 2.0, 2)])
  unimodality = 0
  if allow_unimodal and mono == 0 and lattice_size >= 3 and s.chance(0.2):
    unimodality = s.choice(["valley", "peak", 1, -1])
  return {
      "name": name,
      "type": "num",
      "lattice_size": lattice_size,
      "monotonicity": spelled,
      "always_monotonic": always,
      "convexity": convexity,
      "keypoints": kps,
      "keypoints_type": kp_type,
      "clamp_min": clamp_min,
      "clamp_max": clamp_max,
      "default_value": default,
      "unimodality": unimodality,
  }


def gen_categorical_feature(s, name, lattice_size):
  nb = s.integer(2, 5)
  pairs = None
  if s.chance(0.65):
    perm = s.permutation(nb)
    k = s.integer(1, min(4, nb * (nb - 1) // 2))
    cand = [(perm[i], perm[j]) for i in range(nb) for j in range(i + 1, nb)]
    idx = s.permutation(len(cand))[:k]
    pairs = [[int(cand[i][0]), int(cand[i][1])] for i in sorted(idx)]
  default = -1 if s.chance(0.3) else None
  return {
      "name": name,
      "type": "cat",
      "lattice_size": lattice_size,
      "num_buckets": nb,
      "monotonicity": pairs,
      "default_value": default,
  }


def direction_of(f):
  m = f.get("monotonicity")
  if f["type"] != "num":
    return 0
  if m in (1, "increasing"):
    return 1
  if m in (-1, "decreasing"):
    return -1
  return 0


def feature_config(tfl, f, extra=None):
  extra = extra or {}
  if f["type"] == "cat":
    return tfl.configs.FeatureConfig(
        name=f["name"],
        lattice_size=f["lattice_size"],
        num_buckets=f["num_buckets"],
        monotonicity=([tuple(p) for p in f["monotonicity"]]
                      if f["monotonicity"] else "none"),
        default_value=f["default_value"],
        **extra)
  return tfl.configs.FeatureConfig(
      name=f["name"],
      lattice_size=f["lattice_size"],
      monotonicity=f["monotonicity"],
      unimodality=f.get("unimodality", 0),
      pwl_calibration_always_monotonic=f["always_monotonic"],
      pwl_calibration_convexity=f["convexity"],
      pwl_calibration_num_keypoints=len(f["keypoints"]),
      pwl_calibration_input_keypoints=list(f["keypoints"]),
      pwl_calibration_input_keypoints_type=f["keypoints_type"],
      pwl_calibration_clamp_min=f["clamp_min"],
      pwl_calibration_clamp_max=f["clamp_max"],
      default_value=f["default_value"],
      **extra)


def gen_bounds(s):
  mode = s.weighted([("none", 3), ("min", 1.5), ("max", 1.5), ("both", 4)])
  lo = _r(s.uniform(-3.0, 3.0), 2)
  width = _r(s.log10_uniform(-0.5, 1.0), 2)
  if s.chance(0.3):
    lo = float(s.choice([0.0, -1.0, 0.5, 1.0]))
    width = float(s.choice([1.0, 2.0, 1.5]))
  omin = lo if mode in ("min", "both") else None
  omax = _r(lo + width, 2) if mode in ("max", "both") else None
  return omin, omax


def gen_output_init(s, omin, omax, n):
  lo = omin if omin is not None else (omax - 2.0 if omax is not None else -1.0)
  hi = omax if omax is not None else (omin + 2.0 if omin is not None else 1.0)
  if n <= 1:
    return [_r((lo + hi) / 2)]
  vals = np.sort(np.linspace(lo, hi, n))
  return [_r(v, 4) for v in vals]


# ---------------------------------------------------------------------------
# Premade models


class PremadeBuilder(object):
  NAME = "premade"
  WEIGHT = {"C03": 1.0, "C11": 1.0}

  @staticmethod
  def gen(s, tier):
    kind = s.weighted([("linear", 3), ("lattice", 4), ("ensemble", 5)])
    model = {"kind": kind}
    omin, omax = gen_bounds(s)
    model["output_min"], model["output_max"] = omin, omax
    model["output_calibration"] = s.chance(0.3)
    n_init = s.integer(2, 5) if model["output_calibration"] else 2
    model["output_initialization"] = gen_output_init(s, omin, omax, n_init)
    model["output_calibration_input_keypoints_type"] = (
        "learned_interior" if model["output_calibration"] and s.chance(0.25)
        else "fixed")
    param = "all_vertices"
    if kind in ("lattice", "ensemble") and s.chance(0.35):
      param = "kronecker_factored"
    model["parameterization"] = param
    model["num_terms"] = s.integer(1, 3)
    model["interpolation"] = s.choice(["hypercube", "simplex"])
    model["random_seed"] = s.integer(0, 1000)
    structure = None
    if kind == "ensemble":
      structure = s.weighted([("explicit", 4), ("random", 3), ("rtl", 3)])
    model["structure"] = structure
    same_size = (param == "kronecker_factored" or structure == "rtl")
    n_feat = s.integer(1, 4) if kind != "ensemble" else s.integer(2, 5)
    base_size = s.weighted([(2, 5), (3, 3), (4, 1)])
    allow_unimodal = (param == "all_vertices" and structure != "rtl" and
                      kind != "linear")
    feats = []
    for i in range(n_feat):
      size = base_size if same_size else s.weighted([(2, 5), (3, 3), (4, 1)])
      fs = s.sub("feature", i)
      if fs.chance(0.25):
        feats.append(gen_categorical_feature(fs, "f%d" % i, size))
      else:
        feats.append(gen_numeric_feature(fs, "f%d" % i, size, allow_unimodal))
    model["use_bias"] = False
    if kind == "linear":
      model["use_bias"] = s.chance(0.6)
    if kind == "ensemble":
      rank = s.integer(1, min(3, n_feat))
      if structure == "rtl":
        rank = s.integer(2, 3)  # RTL reuses features to fill lattices.
      num_lat = s.integer(2, 4)
      # Every feature must be used: num_lat * rank >= n_feat.
      while num_lat * rank < n_feat:
        num_lat += 1
      model["lattice_rank"] = rank
      model["num_lattices"] = num_lat
      model["separate_calibrators"] = s.chance(0.5)
      model["use_linear_combination"] = s.chance(0.4)
      bounded = (omin is not None or omax is not None or
                 model["output_calibration"])
      model["use_bias"] = bool(model["use_linear_combination"] and
                               not bounded and s.chance(0.5))
      if structure == "explicit":
        names = [f["name"] for f in feats]
        lattices = [[] for _ in range(num_lat)]
        order = s.permutation(n_feat)
        for k, fi in enumerate(order):
          lattices[k % num_lat].append(names[fi])
        for lat in lattices:
          while len(lat) < rank:
            rest = [n for n in names if n not in lat]
            if not rest:
              break
            lat.append(s.choice(rest))
        lattices = [lat for lat in lattices if lat]
        while len(lattices) < 2:
          lattices.append([s.choice(names)])
        model["lattices"] = lattices
    # 2D shape constraints that perturb the projections (all_vertices only,
    # never RTL, never KFL).
    model["trusts"] = []
    model["dominances"] = []
    if (param == "all_vertices" and structure in (None, "explicit") and
        kind != "linear" and s.chance(0.25)):
      names = [f["name"] for f in feats]
      mains = [f["name"] for f in feats
               if f["type"] == "num" and direction_of(f) == 1]
      conds = [f["name"] for f in feats if f["name"] not in mains]
      if mains and conds:
        model["trusts"].append({
            "main": s.choice(mains),
            "cond": s.choice(conds),
            "type": s.choice(["edgeworth", "trapezoid"]),
            "direction": s.choice(["positive", "negative", 1, -1]),
        })
      if len(mains) >= 2 and s.chance(0.5):
        a, b = mains[0], mains[1]
        model["dominances"].append({"dominant": a, "weak": b})
    if kind == "linear" and s.chance(0.2):
      mains = [f["name"] for f in feats
               if f["type"] == "num" and direction_of(f) == 1]
      if len(mains) >= 2:
        model["dominances"].append({"dominant": mains[0], "weak": mains[1]})
    model["regularizers"] = []
    if s.chance(0.15):
      model["regularizers"].append(["calib_laplacian", 0.0, 1e-3])
    if s.chance(0.1) and param == "all_vertices" and kind != "linear":
      model["regularizers"].append([s.choice(["torsion", "laplacian"]), 1e-3,
                                    1e-3])
    return {"builder": "premade", "features": feats, "model": model}

  @staticmethod
  def model_config(spec):
    _, _, tfl = env.mods()
    m = spec["model"]
    extras = {f["name"]: {} for f in spec["features"]}
    for t in m.get("trusts", []):
      extras[t["cond"]].setdefault("reflects_trust_in", []).append(
          tfl.configs.TrustConfig(feature_name=t["main"], trust_type=t["type"],
                                  direction=t["direction"]))
    for d in m.get("dominances", []):
      extras[d["dominant"]].setdefault("dominates", []).append(
          tfl.configs.DominanceConfig(feature_name=d["weak"],
                                      dominance_type="monotonic"))
    fcs = [feature_config(tfl, f, extras[f["name"]]) for f in spec["features"]]
    regs = [tfl.configs.RegularizerConfig(name=r[0], l1=r[1], l2=r[2])
            for r in m.get("regularizers", [])] or None
    common = dict(
        feature_configs=fcs,
        regularizer_configs=regs,
        output_min=m["output_min"],
        output_max=m["output_max"],
        output_calibration=m["output_calibration"],
        output_calibration_num_keypoints=len(m["output_initialization"]),
        output_initialization=list(m["output_initialization"]),
        output_calibration_input_keypoints_type=m[
            "output_calibration_input_keypoints_type"],
    )
    if m["kind"] == "linear":
      return tfl.configs.CalibratedLinearConfig(use_bias=m["use_bias"],
                                                **common)
    if m["kind"] == "lattice":
      return tfl.configs.CalibratedLatticeConfig(
          interpolation=m["interpolation"],
          parameterization=m["parameterization"],
          num_terms=m["num_terms"],
          random_seed=m["random_seed"],
          **common)
    lattices = {"explicit": m.get("lattices"), "random": "random",
                "rtl": "rtl_layer"}[m["structure"]]
    cfg = tfl.configs.CalibratedLatticeEnsembleConfig(
        lattices=lattices,
        num_lattices=m["num_lattices"],
        lattice_rank=m["lattice_rank"],
        interpolation=m["interpolation"],
        parameterization=m["parameterization"],
        num_terms=m["num_terms"],
        separate_calibrators=m["separate_calibrators"],
        use_linear_combination=m["use_linear_combination"],
        use_bias=m["use_bias"],
        random_seed=m["random_seed"],
        **common)
    if m["structure"] == "random":
      tfl.premade_lib.set_random_lattice_ensemble(cfg)
    return cfg

  @staticmethod
  def build(spec):
    _, _, tfl = env.mods()
    cfg = PremadeBuilder.model_config(spec)
    cls = {"linear": tfl.premade.CalibratedLinear,
           "lattice": tfl.premade.CalibratedLattice,
           "ensemble": tfl.premade.CalibratedLatticeEnsemble}[
               spec["model"]["kind"]]
    return cls(cfg)

  @staticmethod
  def features(spec):
    return oracle_features(spec["features"])

  @staticmethod
  def bounds(spec):
    return spec["model"]["output_min"], spec["model"]["output_max"]

  @staticmethod
  def simplifications(spec):
    out = []
    m = spec["model"]
    for key, val in (("output_calibration", False), ("use_linear_combination",
                                                    False),
                     ("separate_calibrators", False), ("regularizers", []),
                     ("trusts", []), ("dominances", []),
                     ("interpolation", "hypercube")):
      if key in m and m[key] != val and m[key]:
        m2 = dict(m)
        m2[key] = val
        if key == "output_calibration":
          m2["output_initialization"] = [m["output_initialization"][0],
                                         m["output_initialization"][-1]]
          m2["output_calibration_input_keypoints_type"] = "fixed"
        out.append(dict(spec, model=m2))
    feats = spec["features"]
    if len(feats) > 1 and m["kind"] != "ensemble":
      for i in range(len(feats)):
        name = feats[i]["name"]
        if any(name in (t["main"], t["cond"]) for t in m.get("trusts", [])):
          continue
        if any(name in (d["dominant"], d["weak"])
               for d in m.get("dominances", [])):
          continue
        out.append(dict(spec, features=feats[:i] + feats[i + 1:]))
    for i, f in enumerate(feats):
      if f["type"] == "num":
        for key, val in (("convexity", 0), ("keypoints_type", "fixed"),
                         ("clamp_min", False), ("clamp_max", False),
                         ("default_value", None), ("unimodality", 0),
                         ("always_monotonic", False)):
          if f.get(key) != val and f.get(key):
            f2 = dict(f)
            f2[key] = val
            out.append(dict(spec, features=feats[:i] + [f2] + feats[i + 1:]))
    return out


def oracle_features(feats):
  out = []
  for f in feats:
    if f["type"] == "cat":
      out.append({
          "name": f["name"],
          "type": "cat",
          "num_buckets": f["num_buckets"],
          "pairs": [tuple(p) for p in (f["monotonicity"] or [])],
          "default": f["default_value"],
      })
    else:
      out.append({
          "name": f["name"],
          "type": "num",
          "direction": direction_of(f),
          "keypoints": list(f["keypoints"]),
          "missing": f["default_value"],
      })
  return out


BUILDERS = {"premade": PremadeBuilder}
