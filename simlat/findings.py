"""Known findings: genuine defects recorded rather than repaired.

/verif/known_findings.json is committed and never written at run time.  An
entry matches a violation only if property and violation class agree AND the
structural condition named in `when` was computed to hold by the world's own
reference state machine at the violating event.  `fixed` entries match nothing.
"""
import json
import os

PATH = os.path.join(os.path.dirname(os.path.dirname(os.path.abspath(__file__))),
                    "known_findings.json")


def load(path=None):
  path = path or PATH
  if not os.path.exists(path):
    return []
  with open(path) as f:
    doc = json.load(f)
  return doc.get("findings", [])


def match(findings, prop, violation):
  for f in findings:
    if f.get("status") != "open":
      continue
    if f.get("property") != prop:
      continue
    if f.get("class") != violation.cls:
      continue
    if f.get("when") in violation.conditions:
      return f
  return None
