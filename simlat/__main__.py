"""CLI: python -m simlat {check,run,replay,digests} ..."""
import json
import os
import sys


def _cmd_digests(argv):
  import argparse
  ap = argparse.ArgumentParser()
  ap.add_argument("prop")
  ap.add_argument("--seed", type=int, default=0)
  ap.add_argument("--tier", default="quick")
  ap.add_argument("--indices", required=True)
  a = ap.parse_args(argv)
  from . import env, engine, rng
  env.setup()
  out = {}
  for i in [int(x) for x in a.indices.split(",") if x]:
    r = engine.run_one(a.prop, rng.run_seed(a.seed, a.prop, i), tier=a.tier)
    out[i] = r["digest"]
  print(json.dumps(out))
  return 0


def _cmd_run(argv):
  import argparse
  ap = argparse.ArgumentParser()
  ap.add_argument("prop")
  ap.add_argument("--seed", type=int, default=int(os.environ.get("VERIF_SEED", "0")))
  ap.add_argument("--index", type=int, default=0)
  ap.add_argument("--tier", default="quick")
  ap.add_argument("--log", action="store_true")
  a = ap.parse_args(argv)
  from . import env, engine, rng
  env.setup()
  r = engine.run_one(a.prop, rng.run_seed(a.seed, a.prop, a.index), tier=a.tier,
                     keep_log=a.log, want_samples=True)
  if a.log:
    for l in r.pop("log"):
      print(l)
  print(json.dumps(r, indent=1, sort_keys=True))
  return 1 if r["violation"] else 0


def _cmd_replay(argv):
  import argparse
  ap = argparse.ArgumentParser()
  ap.add_argument("path")
  ap.add_argument("--log", action="store_true")
  ap.add_argument("--no-findings", action="store_true")
  a = ap.parse_args(argv)
  from . import env, engine
  env.setup()
  doc, res = engine.replay(a.path, keep_log=a.log,
                           findings=[] if a.no_findings else None)
  if a.log:
    for l in res.pop("log"):
      print(l)
  v = res["violation"]
  same = (v is not None and doc.get("violation") is not None and
          v["class"] == doc["violation"]["class"] and
          v["event"] == doc["violation"]["event"])
  print("replay %s: recorded=%s now=%s digest_recorded=%s digest_now=%s" %
        (a.path, doc.get("violation") and
         (doc["violation"]["class"], doc["violation"]["event"]),
         v and (v["class"], v["event"]), doc.get("digest"), res["digest"]))
  for k in res["known"]:
    print("KNOWN-FINDING: property=%s %s (event %s)" %
          (doc["property"], k["finding"], k["event"]))
  if v is not None:
    print("VIOLATION property=%s replay=%s" % (doc["property"], a.path))
    print(json.dumps(v, indent=1, sort_keys=True))
    return 1
  print("no violation on this tree (same=%s)" % same)
  return 0


def _cmd_minimise(argv):
  """Minimises a failing run; --no-findings also exposes known findings."""
  import argparse
  ap = argparse.ArgumentParser()
  ap.add_argument("prop")
  ap.add_argument("--seed", type=int, default=int(os.environ.get("VERIF_SEED", "0")))
  ap.add_argument("--index", type=int, required=True)
  ap.add_argument("--tier", default="quick")
  ap.add_argument("--no-findings", action="store_true")
  ap.add_argument("--budget", type=float, default=120.0)
  ap.add_argument("--out", required=True)
  a = ap.parse_args(argv)
  from . import env, engine, rng
  env.setup()
  fnd = [] if a.no_findings else None
  rs = rng.run_seed(a.seed, a.prop, a.index)
  world, spec, events = engine.generate(a.prop, rs, a.tier)
  first = engine.run_one(a.prop, rs, world=world, spec=spec, events=events,
                         findings=fnd)
  if first["violation"] is None:
    print("no violation for this run")
    return 0
  cls = first["violation"]["class"]
  spec2, events2, best = engine.minimise(a.prop, rs, world, spec, events, cls,
                                         budget_s=a.budget, findings=fnd)
  engine.write_replay(a.out, a.seed, a.index, best, spec2, events2,
                      note="minimised from %d events%s" %
                      (len(events), " (known findings disabled)" if
                       a.no_findings else ""))
  print("minimised %d -> %d events, class %s, written to %s" %
        (len(events), len(events2), cls, a.out))
  return 1


def _cmd_selfcheck(argv):
  """Offline setup check: imports, one tiny run, replay of its own history."""
  from . import env, engine, rng, findings
  env.setup()
  findings.load()
  rs = rng.run_seed(0, "C07", 0)
  a = engine.run_one("C07", rs)
  b = engine.run_one("C07", rs)
  if a["digest"] != b["digest"]:
    print("selfcheck: same seed gave two digests")
    return 2
  print("selfcheck ok: tensorflow_lattice from %s, digest %s" %
        (env.repo_root(), a["digest"]))
  return 0


def main():
  if len(sys.argv) < 2:
    print(__doc__)
    return 2
  cmd, argv = sys.argv[1], sys.argv[2:]
  if cmd == "check":
    from . import check
    return check.main(argv)
  if cmd == "digests":
    return _cmd_digests(argv)
  if cmd == "run":
    return _cmd_run(argv)
  if cmd == "replay":
    return _cmd_replay(argv)
  if cmd == "minimise":
    return _cmd_minimise(argv)
  if cmd == "selfcheck":
    return _cmd_selfcheck(argv)
  print(__doc__)
  return 2


if __name__ == "__main__":
  sys.exit(main())
