#!/bin/bash
# Soak: quick-tier batches for a range of VERIF_SEED values, no evidence written.
# usage: soak.sh <first_seed> <last_seed> [props...]
first=$1; last=$2; shift 2
props=${@:-C07 C03 C11}
mkdir -p soak_replays
for sd in $(seq $first $last); do
  for p in $props; do
    VERIF_SEED=$sd VERIF_REPLAY_DIR=$PWD/soak_replays timeout 1800 /venv/bin/python -m simlat check $p --tier ${SOAK_TIER:-quick} --no-evidence 2>&1 \
      | grep -E "^(VIOLATION|  class=|runs=|HARNESS-ERROR|VOID-RUN)" | sed "s/^/seed=$sd $p: /"
  done
done
echo SOAK-DONE
