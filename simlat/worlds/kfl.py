"""C07 world: one real tfl.layers.KroneckerFactoredLattice under hostile,
re-ordered and partial optimizer updates.

Actors: real tf_keras optimizers of both families (new-style: update all, then
constrain all; legacy: update->constrain per variable), user-level constraint
application, finalize_constraints(), raw weight writes and snapshot/restore.
The reference state machine tracks, per variable, whether its constraint has
been applied since its last raw write, and which sign(scale) the last kernel
projection saw.
"""
import numpy as np

from .. import engine
from .. import env
from .. import rng as rng_lib
from . import common

VARS = ("scale", "bias", "kernel")
MAG_GUARD = 1e12


def _spell(mono, style):
  if mono is None:
    return None
  if style == "str":
    return ["increasing" if m else "none" for m in mono]
  return [int(m) for m in mono]


@engine.register
class KFLWorld(engine.World):
  NAME = "kfl"
  PROPS = ("C07",)
  WEIGHT = {"C07": 1.0}

  # ------------------------------------------------------------------ gen
  @classmethod
  def generate(cls, prop, run_seed, tier):
    s = rng_lib.Stream(run_seed, "kfl-spec")
    L = s.weighted([(2, 4), (3, 3), (4, 2), (5, 1)])
    dims = s.weighted([(1, 1), (2, 3), (3, 3), (4, 2)])
    units = s.weighted([(1, 3), (2, 2), (3, 1)])
    terms = s.weighted([(1, 2), (2, 3), (3, 2), (4, 1)])
    mode = s.weighted([("none", 2), ("zeros", 1), ("all", 3), ("subset", 5)])
    if mode == "none":
      mono = None
    elif mode == "zeros":
      mono = [0] * dims
    elif mode == "all":
      mono = [1] * dims
    else:
      mono = [int(s.chance(0.5)) for _ in range(dims)]
    mono = _spell(mono, s.choice(["int", "str"]))
    bmode = s.weighted([("none", 3), ("min", 2), ("max", 2), ("both", 4)])
    lo = round(s.uniform(-3.0, 3.0), 2)
    width = round(s.log10_uniform(-1.0, 1.0), 2)
    if s.chance(0.3):
      lo = float(s.choice([0.0, -1.0, 1.0]))
      width = float(s.choice([1.0, 2.0]))
    out_min = lo if bmode in ("min", "both") else None
    out_max = (lo + width) if bmode in ("max", "both") else None
    if bmode == "max":
      out_max = lo
    spec = {
        "lattice_sizes": L,
        "dims": dims,
        "units": units,
        "num_terms": terms,
        "monotonicities": mono,
        "output_min": out_min,
        "output_max": out_max,
        "clip_inputs": s.chance(0.7),
        "kernel_init": s.weighted([("default", 6), ("uniform_pm", 3),
                                   ("seeded", 1)]),
        "scale_init": s.weighted([("default", 8), ("normal", 2)]),
        "init_seed": s.seed31(),
        "input_style": s.weighted([("tensor", 3), ("list", 1)]),
        # Built frozen (fine-tuning set-ups) in a minority of worlds.
        "trainable": not s.sub("trainable").chance(0.15),
    }
    # Swarm profile.
    p = rng_lib.Stream(run_seed, "kfl-profile")
    n_events = p.integer(3, 40 if tier == "thorough" else 28)
    kinds = [("step", 10.0)]
    for kind, w in (("manual", 2.0), ("finalize", 1.0), ("raw_write", 1.5),
                    ("snapshot", 1.0), ("restore", 1.0)):
      if p.chance(0.7):
        kinds.append((kind, w * p.log10_uniform(-0.5, 0.5)))
    if not spec["trainable"] or p.sub("toggle").chance(0.15):
      kinds.append(("toggle_trainable", 1.5))
    if p.sub("focus").chance(0.2) or not spec["trainable"]:
      # Focus profile: arbitrary weights (raw writes, restored snapshots)
      # repaired by finalize_constraints() / manual constraint application
      # alone, which uses its own constraint objects.
      kinds = [("step", 3.0), ("raw_write", 4.0), ("finalize", 4.0),
               ("manual", 2.0), ("snapshot", 1.0), ("restore", 1.0)]
      if not spec["trainable"]:
        kinds.append(("toggle_trainable", 2.0))
    fam_mode = p.weighted([("new", 2), ("legacy", 2), ("both", 5)])
    fams = {"new": ["new"], "legacy": ["legacy"], "both": ["new", "legacy"]}[
        fam_mode]
    opts_new = [o for o in common.NEW_OPTS if p.chance(0.45)] or ["sgd"]
    opts_leg = [o for o in common.LEGACY_OPTS if p.chance(0.45)] or ["sgd"]
    if p.chance(0.35):
      opts_new, opts_leg = ["sgd"], ["sgd"]
    p_perm = p.choice([0.0, 0.3, 0.7, 1.0])
    p_partial = p.choice([0.0, 0.15, 0.4])
    mag_lo = p.uniform(-1.0, 1.0)
    mag_hi = mag_lo + p.uniform(0.5, 2.5)
    lr_lo = p.uniform(-3.0, -0.5)
    lr_hi = lr_lo + p.uniform(0.5, 2.5)
    gk_kernel = [(k, w) for k, w in (("blast", 3), ("adv", 3), ("flip", 1.5),
                                     ("zero", 0.7)) if p.chance(0.8)] or [
                                         ("blast", 1)]
    gk_scale = [(k, w) for k, w in (("blast", 2), ("adv", 2), ("flip", 3),
                                    ("zero_maker", 1.5), ("zero", 0.7))
                if p.chance(0.8)] or [("flip", 1)]
    events = []
    for k in range(n_events):
      es = rng_lib.Stream(run_seed, "kfl-event", k)
      kind = es.weighted(kinds)
      ev = {"kind": kind, "seed": es.seed31()}
      if kind == "step":
        fam = es.choice(fams)
        ev["family"] = fam
        ev["opt"] = es.choice(opts_new if fam == "new" else opts_leg)
        ev["lr"] = es.log10_uniform(lr_lo, lr_hi)
        order = list(VARS)
        if es.chance(p_perm):
          order = [VARS[i] for i in es.permutation(3)]
        ev["order"] = order
        mask = {v: True for v in VARS}
        if es.chance(p_partial):
          mask = {v: es.chance(0.5) for v in VARS}
        ev["mask"] = mask
        ev["grads"] = {
            "kernel": es.weighted(gk_kernel),
            "scale": es.weighted(gk_scale),
            "bias": es.choice(["blast", "adv", "zero"]),
        }
        ev["mag"] = es.log10_uniform(mag_lo, mag_hi)
      elif kind == "manual":
        ev["var"] = es.choice(["kernel", "scale"])
        ev["times"] = es.weighted([(1, 4), (2, 1)])
      elif kind == "raw_write":
        ev["var"] = es.choice(["kernel", "scale"])
        ev["how"] = es.choice(["normal", "negate", "reverse", "const",
                               "zero_some"])
        ev["mag"] = es.log10_uniform(-1.0, 2.0)
      elif kind == "restore":
        ev["which"] = es.integer(0, 7)
      events.append(ev)
    return spec, events

  # ---------------------------------------------------------------- build
  def __init__(self, prop, spec, ctx):
    super(KFLWorld, self).__init__(prop, spec, ctx)
    tf, keras, tfl = env.mods()
    self.tf = tf
    sp = spec
    kwargs = {}
    if sp["kernel_init"] == "uniform_pm":
      kwargs["kernel_initializer"] = keras.initializers.RandomUniform(
          -2.0, 2.0, seed=sp["init_seed"])
    elif sp["kernel_init"] == "seeded":
      kwargs["kernel_initializer"] = (
          tfl.kronecker_factored_lattice_layer.KFLRandomMonotonicInitializer(
              monotonicities=sp["monotonicities"], init_min=0.5, init_max=1.5,
              seed=sp["init_seed"]))
    if sp["scale_init"] == "normal":
      kwargs["scale_initializer"] = keras.initializers.RandomNormal(
          0.0, 1.0, seed=sp["init_seed"] + 1)
    with ctx.sut("construct"):
      self.layer = tfl.layers.KroneckerFactoredLattice(
          lattice_sizes=sp["lattice_sizes"],
          units=sp["units"],
          num_terms=sp["num_terms"],
          monotonicities=sp["monotonicities"],
          output_min=sp["output_min"],
          output_max=sp["output_max"],
          clip_inputs=sp["clip_inputs"],
          trainable=sp.get("trainable", True),
          **kwargs)
      self._call(np.zeros(self._in_shape(1), dtype=np.float32))
    self.L = sp["lattice_sizes"]
    self.dims = sp["dims"]
    self.units = sp["units"]
    self.terms = sp["num_terms"]
    mono = sp["monotonicities"]
    self.mono = [
        bool(m in (1, "increasing")) for m in (mono or [0] * self.dims)
    ]
    self.vars = {"scale": self.layer.scale, "kernel": self.layer.kernel}
    if self.layer.bias.trainable:
      self.vars["bias"] = self.layer.bias
    self.has_con = {
        n: (v.constraint is not None) for n, v in self.vars.items()
    }
    self.calls = []
    for n in ("kernel", "scale"):
      common.install_proxy(self.vars[n], n, self._on_constraint)
    self.pool = common.OptimizerPool(lambda: list(self.vars.values()))
    # Reference state machine.  Construction counts as a raw write.
    self.dirty = {"kernel": True, "scale": True}
    self.finalize_noise = {"kernel": 0.0, "scale": 0.0}
    self.ref = common.KflRef(self.layer, fresh=True)
    self.snapshots = []
    self.prev_family = None
    self.prev_lr = None
    self.last_con = None
    self.ctx = ctx
    self._log_state(ctx, "construct")

  def _call(self, x):
    """Evaluates the layer on a batch given as one array."""
    tf = self.tf
    x = tf.constant(np.asarray(x, dtype=np.float32))
    if self.spec.get("input_style") == "list":
      # List of `dims` tensors of shape (..., 1), as the layer documents.
      return self.layer([x[..., d:d + 1] for d in range(self.spec["dims"])])
    return self.layer(x)

  def _in_shape(self, n):
    if self.spec["units"] == 1:
      return [n, self.spec["dims"]]
    return [n, self.spec["units"], self.spec["dims"]]

  def _scale_sign(self):
    return np.sign(self.layer.scale.numpy()).astype(np.int8)

  def _on_constraint(self, name, real, w=None, out=None):
    """Called by the proxy each time a variable's constraint is evaluated."""
    self.calls.append(name)
    self.ctx.log("constraint", name)
    self.dirty[name] = False
    self.last_con = name
    if name in self.finalize_noise:
      self.finalize_noise[name] = 0.0  # v.assign(constraint(v)) is exact
    if name == "kernel":
      # The projection just ran against the *current* scale.
      self.ref.on_kernel_projection()
    elif name == "scale" and w is not None:
      self.ref.on_scale_constraint(w.numpy(), np.asarray(out))

  def _log_state(self, ctx, tag):
    ws = common.np_weights([self.layer.scale, self.layer.bias,
                            self.layer.kernel])
    ctx.log(tag, *ws)

  # ---------------------------------------------------------------- apply
  def apply(self, ev, ctx):
    self.ctx = ctx
    kind = ev["kind"]
    before_sign = self._scale_sign()
    getattr(self, "_ev_" + kind)(ev, ctx)
    after_sign = self._scale_sign()
    if np.any(before_sign * after_sign < 0):
      ctx.fire("sign_flip")
    if np.any((after_sign == 0) & (before_sign != 0)):
      ctx.reach("scale_entry_became_zero")
    self.ref.end_of_event()
    self._log_state(ctx, "state")

  def _hostile_grads(self, es):
    """Gradients of a loss that rewards breaking monotonicity and bounds."""
    tf = self.tf
    x, lines = self._probe(es, n_base=6, n_line=5)
    sp = self.spec
    with tf.GradientTape() as tape:
      loss = 0.0
      y = self._call(x)
      if sp["output_max"] is not None or sp["output_min"] is not None:
        sgn = 1.0
        if sp["output_max"] is None or (sp["output_min"] is not None and
                                        es.chance(0.5)):
          sgn = -1.0
        loss = loss - sgn * tf.reduce_sum(y)
      else:
        loss = loss + tf.reduce_sum(y * tf.constant(
            es.normal(size=y.shape).astype(np.float32)))
      for d, pts in lines:
        yl = self._call(pts)  # (n_base, n_line, units)
        loss = loss + tf.reduce_sum(yl[:, 1:] - yl[:, :-1])
    variables = list(self.vars.values())
    grads = tape.gradient(loss, variables)
    out = {}
    for (n, v), g in zip(self.vars.items(), grads):
      if g is None:
        g = tf.zeros_like(v)
      out[n] = np.array(g.numpy(), dtype=np.float32)
    return out

  def _ev_toggle_trainable(self, ev, ctx):
    """Freeze / unfreeze the layer (fine-tuning histories)."""
    self.layer.trainable = not self.layer.trainable
    ctx.fire("toggle_trainable")
    ctx.token("trainable:%d" % int(self.layer.trainable))

  def _ev_step(self, ev, ctx):
    tf = self.tf
    if not self.layer.trainable:
      # A frozen layer receives no optimizer updates.
      ctx.count("noop:step_on_frozen_layer")
      return
    es = rng_lib.Stream(ev["seed"], "step")
    lr = float(ev["lr"])
    mag = float(ev["mag"])
    adv = None
    grads = {}
    for n, v in self.vars.items():
      gk = ev["grads"].get(n, "blast")
      cur = np.array(v.numpy(), dtype=np.float32)
      if gk == "adv":
        if adv is None:
          with ctx.sut("gradient"):
            adv = self._hostile_grads(es.sub("adv"))
        g = adv[n]
        m = float(np.max(np.abs(g))) if g.size else 0.0
        g = g * (mag / m) if m > 0 and np.isfinite(m) else es.sub(
            "advfallback", n).normal(size=cur.shape, scale=mag)
      elif gk == "blast":
        g = es.sub("blast", n).normal(size=cur.shape, scale=mag)
      elif gk == "flip":
        sel = es.sub("flipsel", n).g.random(cur.shape) < 0.6
        u = es.sub("flipu", n).g.uniform(0.1, 1.5, size=cur.shape)
        if n == "kernel":
          target = cur[:, ::-1, :, :] * u
        else:
          target = -u * cur
        g = np.where(sel, (cur - target) / lr, 0.0)
      elif gk == "zero_maker":
        sel = es.sub("zsel", n).g.random(cur.shape) < 0.5
        g = np.where(sel, cur / lr, 0.0)
      else:
        g = np.zeros_like(cur)
      g = np.nan_to_num(np.asarray(g, dtype=np.float32), nan=0.0,
                        posinf=3e4, neginf=-3e4)
      g = np.clip(g, -1e5, 1e5)
      grads[n] = g
    order = [n for n in ev["order"] if n in self.vars]
    chosen = [n for n in order if ev["mask"].get(n, True)]
    if not chosen:
      chosen = [order[es.integer(0, len(order) - 1)]]
    canonical = [n for n in VARS if n in self.vars]
    if order != canonical:
      ctx.fire("order_permute")
    if len(chosen) < len(order):
      ctx.fire("partial_update")
    if self.prev_family is not None and self.prev_family != ev["family"]:
      ctx.fire("protocol_switch")
    if self.prev_lr is not None and (lr > 10 * self.prev_lr or
                                     lr < 0.1 * self.prev_lr):
      ctx.fire("lr_jump")
    self.prev_family, self.prev_lr = ev["family"], lr
    with ctx.sut("optimizer"):
      opt = self.pool.get(ev["family"], ev["opt"], lr)
    gv = [(tf.constant(grads[n]), self.vars[n]) for n in chosen]
    for n in chosen:
      if n in self.dirty:
        self.dirty[n] = True  # raw write by the optimizer's update
    self.calls = []
    with ctx.sut("apply_gradients"):
      opt.apply_gradients(gv)
    ctx.steps += 1
    # The optimizer protocol has now applied every constraint the layer
    # attached to the updated variables - whether or not the layer attached the
    # ones its configuration calls for.
    for n in chosen:
      if n in self.dirty:
        self.dirty[n] = False
    if (ev["family"] == "legacy" and "kernel" in chosen and "scale" in chosen
        and chosen.index("kernel") < chosen.index("scale")):
      ctx.reach("legacy_kernel_before_scale")
    ctx.token("step:%s:%s:%s:%s" % (ev["family"][0], ",".join(
        n[0] for n in chosen), ",".join(c[0] for c in self.calls),
                                    "".join(sorted(set(ev["grads"][n][0]
                                                       for n in chosen)))))

  def _ev_manual(self, ev, ctx):
    v = self.vars[ev["var"]]
    if v.constraint is None:
      # Nothing is attached, so "the constraint has been applied" holds.
      ctx.count("noop:manual_without_constraint")
      self.dirty[ev["var"]] = False
      return
    for _ in range(int(ev.get("times", 1))):
      with ctx.sut("manual_constraint"):
        v.assign(v.constraint(v))
    ctx.fire("manual_constraint")
    ctx.token("manual:%s%d" % (ev["var"][0], ev.get("times", 1)))

  def _ev_finalize(self, ev, ctx):
    pre = self.layer.scale.numpy()
    # finalize_constraints() writes `var += projected - var`: the result
    # carries an absolute rounding error of about one ulp of the *old* value.
    self.finalize_noise = {
        "kernel": float(np.max(np.abs(self.layer.kernel.numpy()))) * 2.0**-22,
        "scale": float(np.max(np.abs(pre))) * 2.0**-22,
    }
    with ctx.sut("finalize_constraints"):
      self.layer.finalize_constraints()
    self.dirty = {"kernel": False, "scale": False}
    # finalize projects the kernel against the current scale, then the scale.
    self.ref.on_kernel_projection(np.sign(pre))
    self.ref.on_scale_constraint(pre, self.layer.scale.numpy())
    self.last_con = "finalize"
    ctx.fire("finalize")
    ctx.token("finalize")

  def _ev_raw_write(self, ev, ctx):
    es = rng_lib.Stream(ev["seed"], "raw")
    v = self.vars[ev["var"]]
    cur = np.array(v.numpy(), dtype=np.float32)
    how = ev["how"]
    mag = float(ev["mag"])
    if how == "normal":
      new = es.normal(size=cur.shape, scale=mag)
    elif how == "negate":
      new = -cur
    elif how == "reverse":
      new = cur[:, ::-1] if cur.ndim == 4 else cur[:, ::-1]
    elif how == "const":
      new = np.full_like(cur, es.choice([0.0, 1.0, -1.0]) * mag)
    else:
      sel = es.g.random(cur.shape) < 0.5
      new = np.where(sel, 0.0, cur)
    v.assign(np.asarray(new, dtype=np.float32))
    self.dirty[ev["var"]] = True
    self.finalize_noise[ev["var"]] = 0.0
    ctx.fire("raw_write")
    ctx.token("raw:%s:%s" % (ev["var"][0], how))

  def _ev_snapshot(self, ev, ctx):
    self.snapshots.append({
        "w": [np.array(w) for w in self.layer.get_weights()],
        "dirty": dict(self.dirty),
        "ref": self.ref.state(),
        "finalize_noise": dict(self.finalize_noise),
    })
    ctx.token("snapshot")

  def _ev_restore(self, ev, ctx):
    if not self.snapshots:
      ctx.count("noop:restore_without_snapshot")
      return
    idx = int(ev["which"]) % len(self.snapshots)
    snap = self.snapshots[idx]
    with ctx.sut("set_weights"):
      self.layer.set_weights(snap["w"])
    self.dirty = dict(snap["dirty"])
    self.ref.restore(snap["ref"])
    self.finalize_noise = dict(snap.get("finalize_noise",
                                        {"kernel": 0.0, "scale": 0.0}))
    ctx.fire("snapshot_restore")
    if idx != len(self.snapshots) - 1:
      ctx.reach("restore_from_older_snapshot")
    ctx.token("restore")

  # ---------------------------------------------------------------- check
  def _probe(self, s, n_base=12, n_line=None):
    """Base points plus, per monotone dimension, lines through them."""
    L, dims, units = self.L, self.dims, self.units
    clip = self.spec["clip_inputs"]
    shape = (n_base, units, dims)
    r = s.g.random(shape)
    u = s.g.uniform(0.0, L - 1.0, size=shape)
    vert = s.g.integers(0, L, size=shape).astype(np.float64)
    edge = np.where(s.g.random(shape) < 0.5, 0.0, L - 1.0)
    outside = np.where(
        s.g.random(shape) < 0.5, s.g.uniform(-1.5, 0.0, size=shape),
        s.g.uniform(L - 1.0, L + 0.5, size=shape))
    x = np.where(r < 0.5, u, np.where(r < 0.75, vert, np.where(r < 0.85, edge,
                                                             outside)))
    if not clip:
      x = np.where(r >= 0.85, u, x)
    vals = list(range(L)) + list(s.g.uniform(0.0, L - 1.0, size=4))
    if n_line is not None:
      vals = list(s.g.uniform(0.0, L - 1.0, size=n_line))
    elif clip:
      vals += [-0.7, L - 0.3, float(s.g.uniform(-2.0, 0.0)),
               float(s.g.uniform(L - 1.0, L + 1.0))]
    vals = np.sort(np.asarray(vals, dtype=np.float64))
    lines = []
    for d in range(dims):
      if not self.mono[d]:
        continue
      pts = np.repeat(x[:, None, :, :], len(vals), axis=1)  # (n, g, u, d)
      pts[:, :, :, d] = vals[None, :, None]
      lines.append((d, self._shape_in(pts)))
    return self._shape_in(x), lines

  def _shape_in(self, a):
    a = np.asarray(a, dtype=np.float32)
    if self.units == 1:
      return a.reshape(a.shape[:-2] + (self.dims,))
    return a

  def _finalize_tolerance(self):
    """Output error caused by finalize_constraints()' additive write: absolute
    weight noise times the sensitivity of the output to each weight."""
    nk, ns = self.finalize_noise["kernel"], self.finalize_noise["scale"]
    if nk == 0.0 and ns == 0.0:
      return np.zeros(self.units)
    k = self.layer.kernel.numpy().astype(np.float64)
    s = np.abs(self.layer.scale.numpy().astype(np.float64))
    k = k.reshape(self.L, self.units, self.dims, self.terms)
    mx = np.max(np.abs(k), axis=0)  # (units, dims, terms)
    sens = np.zeros((self.units, self.terms))
    for d in range(self.dims):
      others = np.prod(np.delete(mx, d, axis=1), axis=1)  # (units, terms)
      sens += others
    full = np.prod(mx, axis=1)
    return 2.0 * (nk * np.mean(s * sens, axis=1) + ns * np.mean(full, axis=1))

  def _magnitude(self):
    k = self.layer.kernel.numpy().astype(np.float64)
    s = self.layer.scale.numpy().astype(np.float64)
    b = self.layer.bias.numpy().astype(np.float64)
    k = k.reshape(self.L, self.units, self.dims, self.terms)
    mx = np.max(np.abs(k), axis=0)  # (units, dims, terms)
    prod = np.prod(mx, axis=1)  # (units, terms)
    mag = np.abs(b) + np.mean(np.abs(s) * prod, axis=1)
    return mag  # per unit

  def check(self, ctx, ev):
    sp = self.spec
    ws = common.np_weights([self.layer.scale, self.layer.bias,
                            self.layer.kernel])
    if not common.all_finite(ws):
      self.stop_requested = True
      if ev["kind"] in ("manual", "finalize"):
        return [engine.Violation("nonfinite", {"after": ev["kind"]})]
      ctx.count("guard:nonfinite_after_update")
      return []
    mag = self._magnitude()
    if float(np.max(mag)) > MAG_GUARD:
      self.stop_requested = True
      ctx.count("guard:magnitude")
      return []
    sign_now = self._scale_sign()
    active = not (self.dirty["kernel"] or self.dirty["scale"])
    stale_units = self.ref.stale_units()
    ctx.abstract((bool(np.any(sign_now == 0)), bool(np.any(sign_now < 0)),
                  bool(np.any(sign_now > 0)), bool(np.any(stale_units)),
                  self.dirty["kernel"], self.dirty["scale"], self.last_con))
    if np.any(sign_now == 0):
      ctx.reach("scale_zero_at_check")
    if np.all(sign_now <= 0) and np.any(sign_now < 0):
      ctx.reach("scale_all_nonpositive")
    if np.any(sign_now < 0) and np.any(sign_now > 0):
      ctx.reach("scale_mixed_signs")
    if np.any(stale_units):
      ctx.reach("stale_sign_present")
    if not active:
      ctx.count("check:inactive")
      return []
    ctx.count("check:active")
    ps = rng_lib.Stream(ctx.run_seed, "probe", ev.get("id"))
    x, lines = self._probe(ps)
    tf = self.tf
    out = []
    tol_u = 1e-5 * (1.0 + mag) + self._finalize_tolerance()  # per unit
    has_bounds = sp["output_min"] is not None or sp["output_max"] is not None
    with ctx.sut("call"):
      y = self._call(x).numpy().astype(np.float64)
      ylines = [(d, pts, self._call(pts).numpy().astype(np.float64))
                for d, pts in lines]
    ctx.log("probe", y.astype(np.float32))
    ctx.count("probe_points", int(y.shape[0]) + sum(
        int(np.prod(yl.shape[:2])) for _, _, yl in ylines))
    if not np.all(np.isfinite(y)):
      return [engine.Violation("nonfinite_output", {"after": ev["kind"]})]
    # Bounds on every legitimate probe point.
    if has_bounds:
      ally = [y.reshape(-1, self.units)] + [
          yl.reshape(-1, self.units) for _, _, yl in ylines
      ]
      ally = np.concatenate(ally, axis=0)
      for u in range(self.units):
        lo_v = hi_v = 0.0
        if sp["output_min"] is not None:
          lo_v = float(sp["output_min"] - np.min(ally[:, u]))
        if sp["output_max"] is not None:
          hi_v = float(np.max(ally[:, u]) - sp["output_max"])
        worst = max(lo_v, hi_v)
        if worst > tol_u[u]:
          out.append(engine.Violation(
              "bounds", {
                  "unit": u,
                  "min_output": float(np.min(ally[:, u])),
                  "max_output": float(np.max(ally[:, u])),
                  "output_min": sp["output_min"],
                  "output_max": sp["output_max"],
                  "scale": self.layer.scale.numpy()[u],
              }, margin=worst, tol=float(tol_u[u]),
              conditions=self._conditions(u, stale_units)))
          break
    # Monotonicity along every declared-increasing dimension.
    done = False
    for d, pts, yl in ylines:
      diffs = yl[:, 1:, :] - yl[:, :-1, :]  # (n, g-1, units)
      for u in range(self.units):
        worst = float(-np.min(diffs[:, :, u]))
        if worst > tol_u[u]:
          i, j = np.unravel_index(np.argmin(diffs[:, :, u]),
                                  diffs[:, :, u].shape)
          out.append(engine.Violation(
              "mono", {
                  "unit": u,
                  "dim": d,
                  "x_lo": pts[i, j],
                  "x_hi": pts[i, j + 1],
                  "f_lo": yl[i, j, u],
                  "f_hi": yl[i, j + 1, u],
                  "sign_seen": None if self.ref.expected is None else
                               self.ref.expected[u],
                  "flipped_by_scale_constraint": self.ref.unexcused[u],
                  "sign_now": sign_now[u],
              }, margin=worst, tol=float(tol_u[u]),
              conditions=self._conditions(u, stale_units)))
          done = True
          break
      if done:
        break
    return out

  def _conditions(self, u, stale_units):
    conds = []
    if stale_units[u]:
      conds.append("stale_kernel_projection")
    return conds

  def nontrivial(self, ctx):
    return (ctx.steps >= 3 and ctx.stats.get("check:active", 0) >= 2 and
            any(k.startswith("fault:") for k in ctx.stats))

  def close(self):
    for n in ("kernel", "scale"):
      common.remove_proxy(self.vars[n])

  # --------------------------------------------------------- minimisation
  @classmethod
  def simplifications(cls, spec, events):
    out = []
    for i, ev in enumerate(events):
      if ev["kind"] != "step":
        continue
      simpler = []
      if ev["family"] != "new":
        simpler.append(dict(ev, family="new"))
      if ev["opt"] != "sgd":
        simpler.append(dict(ev, opt="sgd"))
      if ev["order"] != list(VARS):
        simpler.append(dict(ev, order=list(VARS)))
      if not all(ev["mask"].values()):
        simpler.append(dict(ev, mask={v: True for v in VARS}))
      for n in VARS:
        if ev["grads"].get(n) not in ("zero",):
          g = dict(ev["grads"])
          g[n] = "zero"
          simpler.append(dict(ev, grads=g))
      for cand in simpler:
        out.append((spec, events[:i] + [cand] + events[i + 1:]))
    if spec["units"] > 1:
      out.append((dict(spec, units=1), events))
    if spec["num_terms"] > 1:
      out.append((dict(spec, num_terms=spec["num_terms"] - 1), events))
    if spec["kernel_init"] != "default":
      out.append((dict(spec, kernel_init="default"), events))
    if spec["scale_init"] != "default":
      out.append((dict(spec, scale_init="default"), events))
    return out
