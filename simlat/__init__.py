"""simlat - deterministic simulation with fault injection for tensorflow/lattice.

One run = one world (a real tfl layer/model built from a generated spec) plus
one history (generated operations and faults), executed under a logical clock
in one process.  One integer (the run seed) decides everything.
See /verif/DESIGN.md.
"""
