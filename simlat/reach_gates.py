"""Reach probes that must be non-zero in a thorough batch (>= 1000 runs)."""
REQUIRED = {
    "C07": [
        "reach:scale_zero_at_check",
        "reach:scale_all_nonpositive",
        "reach:scale_mixed_signs",
        "reach:stale_sign_present",
        "reach:legacy_kernel_before_scale",
        "reach:restore_from_older_snapshot",
        "fault:sign_flip",
        "fault:order_permute",
        "fault:partial_update",
        "fault:protocol_switch",
        "fault:manual_constraint",
        "fault:raw_write",
    ],
}
