"""Hard restart: loads a checkpoint in a fresh interpreter.

Imports nothing from the library but the public package, hands the loaders
only tfl.premade.get_custom_objects(), evaluates the recorded probe inputs and
reports config, variables, outputs and constraint status back to the parent.
"""
import json
import os
import sys
import traceback


def main():
  job_path = sys.argv[1]
  with open(job_path) as f:
    job = json.load(f)
  res_path = job_path.replace(".json", "_res.json")
  os.environ.setdefault("TF_CPP_MIN_LOG_LEVEL", "3")
  os.environ.setdefault("TF_ENABLE_ONEDNN_OPTS", "0")
  os.environ.setdefault("CUDA_VISIBLE_DEVICES", "")
  root = job["repo"]
  sys.path.insert(0, root)
  res = {"ok": False}
  try:
    import numpy as np
    import tensorflow as tf
    tf.config.threading.set_intra_op_parallelism_threads(1)
    tf.config.threading.set_inter_op_parallelism_threads(1)
    import tf_keras as keras
    import tensorflow_lattice as tfl
    if not os.path.abspath(tfl.__file__).startswith(os.path.abspath(root)):
      raise RuntimeError("wrong tensorflow_lattice: %s" % tfl.__file__)
    from simlat.worlds import modelworld
    co = tfl.premade.get_custom_objects()
    fmt = job["fmt"]
    try:
      if fmt in ("weights_h5", "weights_v3", "weights_tf"):
        xs0 = np.load(job["x"])
        x0 = [tf.constant(xs0["arr_%d" % i]) for i in range(len(xs0.files))]
        if job.get("rebuild"):
          # The user's own model-building code runs again in the new process.
          from simlat.worlds import builders
          # A new process starts from its own global RNG state.
          keras.utils.set_random_seed(int(job.get("rng_seed", 1)))
          b = builders.BUILDERS[job["spec"]["builder"]]
          if (fmt == "weights_tf" and
              getattr(b, "can_defer", lambda sp: False)(job["spec"])):
            model = b.build(job["spec"], defer=True)
            model.load_weights(job["path"])
            model(b.to_model_inputs_spec(tf, x0, job["spec"]))
          else:
            model = b.build(job["spec"])
            model.load_weights(job["path"])
        else:
          model = keras.models.model_from_json(job["json"], custom_objects=co)
          model.load_weights(job["path"])
      else:
        model = keras.models.load_model(job["path"], custom_objects=co)
      xs = np.load(job["x"])
      x = [xs["arr_%d" % i] for i in range(len(xs.files))]
      xin = [tf.constant(c) for c in x]
      from simlat.worlds import builders as _b
      if job.get("ragged"):
        xin = _b.ragged_inputs(tf, xin)
      else:
        bb = _b.BUILDERS.get((job.get("spec") or {}).get("builder"))
        conv = getattr(bb, "to_model_inputs_spec", None)
        if conv is not None:
          xin = conv(tf, xin, job["spec"])
      y = model(xin).numpy()
      cfg = modelworld.json_norm(model.get_config())
      meta = []
      for v in model.weights:
        meta.append([v.name.split("/")[-1].split(":")[0],
                     [int(d) for d in v.shape], v.dtype.name,
                     bool(v.trainable), v.constraint is not None])
      ok, why = True, None
      for layer in model._flatten_layers(include_self=False, recursive=True):  # pylint: disable=protected-access
        ac = getattr(layer, "assert_constraints", None)
        if ac is None:
          continue
        try:
          ac()
        except Exception as e:  # pylint: disable=broad-except
          ok, why = False, "%s: %s" % (layer.name, str(e)[:200])
          break
      lcfg = []
      for layer in model._flatten_layers(include_self=False, recursive=True):  # pylint: disable=protected-access
        if type(layer).__module__.startswith("tensorflow_lattice"):
          c = modelworld._strip_object_names(  # pylint: disable=protected-access
              modelworld.json_norm(layer.get_config()))
          c.pop("name", None)
          lcfg.append([type(layer).__name__, c])
      np.savez(job["out"], y=y)
      res = {"ok": True, "config": cfg, "var_meta": meta, "assert_ok": ok,
             "assert_why": why, "layer_configs": lcfg}
    except Exception as e:  # pylint: disable=broad-except
      res = {"ok": False, "exc_type": type(e).__name__,
             "exc_text": str(e)[:2000], "tb": traceback.format_exc()[-3000:]}
  except Exception as e:  # pylint: disable=broad-except
    res = {"ok": False, "harness": True, "exc_type": type(e).__name__,
           "exc_text": str(e)[:2000], "tb": traceback.format_exc()[-3000:]}
  with open(res_path, "w") as f:
    json.dump(res, f)


if __name__ == "__main__":
  main()
