"""C03 / C11 world: a real Keras model built from tfl layers, driven through a
generated history of optimizer steps, fits, finalize calls, checkpoints,
crashes and restores.

C03 oracle (after construction and after every event): pairwise monotonicity
in every constrained feature, categorical orderings, output bounds.
C11 oracle (at every restore): the rebuilt model equals the durable image that
a trivial in-memory reference model recorded at checkpoint time.
"""
import collections.abc
import copy
import json
import os
import random
import shutil
import subprocess
import sys
import tempfile

import numpy as np

from .. import engine
from .. import env
from .. import rng as rng_lib
from . import builders
from . import common

MAG_GUARD = 1e9
FORMATS = ("memory", "weights_h5", "weights_v3", "weights_tf", "full_h5",
           "keras", "savedmodel")


def _takes_custom_objects(cls):
  """True if cls.from_config declares a custom_objects parameter."""
  import inspect
  try:
    return "custom_objects" in inspect.signature(cls.from_config).parameters
  except (TypeError, ValueError):
    return False


def json_norm(o):
  """JSON-normalises a config (tuples become lists, numpy becomes plain)."""

  def default(x):
    if isinstance(x, np.ndarray):
      return x.tolist()
    if isinstance(x, (np.floating,)):
      return float(x)
    if isinstance(x, (np.integer,)):
      return int(x)
    if isinstance(x, (np.bool_,)):
      return bool(x)
    if hasattr(x, "get_config"):
      return {"class_name": type(x).__name__, "config": x.get_config()}
    if isinstance(x, (set, frozenset)):
      return sorted(x, key=repr)
    if isinstance(x, collections.abc.Mapping):
      return dict(x)
    if isinstance(x, collections.abc.Sequence) and not isinstance(
        x, (str, bytes)):
      return list(x)  # Keras ListWrapper and friends
    return repr(x)

  return _strip(json.loads(json.dumps(o, default=default, sort_keys=True)))


# Keras bookkeeping that is not part of an object's own configuration.
_BOOKKEEPING = ("build_config", "shared_object_id", "module", "registered_name",
                "batch_input_shape", "build_input_shape")


def _strip_object_names(o):
  """Drops auto-generated Keras object names nested in a layer's config (an
  inner model of Aggregation is renamed whenever it is constructed again);
  names of tfl *Config objects (feature names!) are configuration and stay."""
  if isinstance(o, dict):
    out = {}
    for k, v in o.items():
      if (k == "config" and isinstance(v, dict) and isinstance(
          o.get("class_name"), str) and not o["class_name"].endswith("Config")):
        v = {kk: vv for kk, vv in v.items() if kk != "name"}
      out[k] = _strip_object_names(v)
    return out
  if isinstance(o, list):
    return [_strip_object_names(v) for v in o]
  return o


def _strip(o):
  if isinstance(o, dict):
    return {k: _strip(v) for k, v in o.items() if k not in _BOOKKEEPING}
  if isinstance(o, list):
    return [_strip(v) for v in o]
  return o


def config_diff(a, b, path=""):
  """Returns a list of human-readable differences between two JSON values."""
  out = []
  if type(a) != type(b) and not (isinstance(a, (int, float)) and
                                 isinstance(b, (int, float)) and
                                 not isinstance(a, bool) and
                                 not isinstance(b, bool)):
    return ["%s: %r != %r" % (path, a, b)]
  if isinstance(a, dict):
    for k in sorted(set(a) | set(b)):
      if k not in a:
        out.append("%s.%s: missing in original" % (path, k))
      elif k not in b:
        out.append("%s.%s: missing in rebuilt" % (path, k))
      else:
        out.extend(config_diff(a[k], b[k], path + "." + k))
  elif isinstance(a, list):
    if len(a) != len(b):
      out.append("%s: list length %d != %d" % (path, len(a), len(b)))
    else:
      for i, (x, y) in enumerate(zip(a, b)):
        out.extend(config_diff(x, y, "%s[%d]" % (path, i)))
  else:
    if a != b:
      out.append("%s: %r != %r" % (path, a, b))
  return out[:12]


@engine.register
class ModelWorld(engine.World):
  NAME = "model"
  PROPS = ("C03", "C11")
  WEIGHT = {"C03": 1.0, "C11": 1.0}

  # ------------------------------------------------------------------ gen
  @classmethod
  def generate(cls, prop, run_seed, tier):
    s = rng_lib.Stream(run_seed, "model-spec")
    cands = [(b, b.WEIGHT.get(prop, 0.0)) for b in builders.BUILDERS.values()]
    cands = [(b, w) for b, w in sorted(cands, key=lambda c: c[0].NAME) if w > 0]
    builder = s.weighted(cands)
    spec = builder.gen(s.sub("spec"), tier)
    p = rng_lib.Stream(run_seed, "model-profile")
    p_rebuild = 0.3
    if prop == "C03":
      n_events = p.integer(3, 22 if tier == "thorough" else 14)
      kinds = [("step", 10.0)]
      for kind, w in (("fit", 0.6), ("finalize", 0.8), ("checkpoint", 1.2),
                      ("crash", 1.0), ("reload", 0.6), ("clone", 0.5)):
        if p.chance(0.6):
          kinds.append((kind, w * p.log10_uniform(-0.4, 0.4)))
      fmts = [f for f in ("memory", "weights_h5", "weights_v3", "weights_tf",
                          "full_h5", "keras") if p.chance(0.5)] or ["memory"]
      hard_p = 0.0
    else:
      n_events = p.integer(3, 16 if tier == "thorough" else 11)
      kinds = [("step", 5.0), ("checkpoint", 3.0), ("crash", 3.0)]
      for kind, w in (("fit", 0.4), ("finalize", 0.5), ("reload", 0.6),
                      ("clone", 1.0)):
        if p.chance(0.5):
          kinds.append((kind, w))
      fmts = [f for f in FORMATS if p.chance(0.5)] or ["weights_h5"]
      if "savedmodel" in fmts and p.chance(0.6):
        fmts.remove("savedmodel")
        fmts = fmts or ["keras"]
      hard_p = p.choice([0.0, 0.0, 0.15, 0.3])
      if builders.seed_derived(spec):
        # Structure recomputed from a seed: the interesting restart is a new
        # process (other hash salt, other RNG state) re-running the user's
        # model-building code and loading saved weights.
        hard_p = p.choice([0.3, 0.6])
        p_rebuild = 0.7
        if not any(f.startswith("weights") for f in fmts):
          fmts.append(p.choice(["weights_h5", "weights_tf", "weights_v3"]))
    if getattr(builder, "can_defer", lambda sp: False)(spec):
      # Models that are unbuilt until first called: the restart of interest is
      # "construct again, load the TF-format checkpoint, then call".
      p_rebuild = 0.75
      fmts = ["weights_tf", "weights_tf", p.choice(list(FORMATS))]
    if getattr(builder, "deferred_strictness", lambda sp: False)(spec):
      # Strictness is only promised after finalize_constraints(): make sure
      # histories contain enough of them to have anything to check.
      kinds = [(k, w) for k, w in kinds if k != "finalize"] + [("finalize",
                                                                4.0)]
    fam_mode = p.weighted([("new", 3), ("legacy", 2), ("both", 4)])
    fams = {"new": ["new"], "legacy": ["legacy"], "both": ["new", "legacy"]}[
        fam_mode]
    opts_new = [o for o in common.NEW_OPTS if p.chance(0.4)] or ["sgd"]
    opts_leg = [o for o in common.LEGACY_OPTS if p.chance(0.4)] or ["sgd"]
    if p.chance(0.3):
      opts_new, opts_leg = ["sgd"], ["sgd"]
    order_modes = [(m, w) for m, w in (("canonical", 3), ("reversed", 1),
                                       ("shuffled", 2)) if p.chance(0.75)] or [
                                           ("canonical", 1)]
    p_partial = p.choice([0.0, 0.0, 0.2, 0.5])
    mag_lo = p.uniform(-1.0, 1.5)
    mag_hi = mag_lo + p.uniform(0.5, 2.5)
    lr_lo = p.uniform(-3.0, -0.5)
    lr_hi = lr_lo + p.uniform(0.5, 2.5)
    gkinds = [(k, w) for k, w in (("adv", 4), ("blast", 3), ("mix", 2))
              if p.chance(0.8)] or [("adv", 1)]
    events = []
    for k in range(n_events):
      es = rng_lib.Stream(run_seed, "model-event", k)
      kind = es.weighted(kinds)
      ev = {"kind": kind, "seed": es.seed31()}
      if kind == "step":
        fam = es.choice(fams)
        ev["family"] = fam
        ev["opt"] = es.choice(opts_new if fam == "new" else opts_leg)
        ev["lr"] = es.log10_uniform(lr_lo, lr_hi)
        ev["order"] = es.weighted(order_modes)
        ev["p_drop"] = 0.4 if es.chance(p_partial) else 0.0
        ev["grad"] = es.weighted(gkinds)
        ev["mag"] = es.log10_uniform(mag_lo, mag_hi)
      elif kind == "fit":
        ev["family"] = es.choice(fams)
        ev["opt"] = es.choice(opts_new if ev["family"] == "new" else opts_leg)
        ev["lr"] = es.log10_uniform(lr_lo, lr_hi)
        ev["eager"] = es.chance(0.5)
        ev["n"] = es.choice([8, 24])
        ev["batch"] = es.choice([4, 8, 24])
        ev["mag"] = es.log10_uniform(0.0, 2.0)
      elif kind == "checkpoint":
        ev["fmt"] = es.choice(fmts)
      elif kind == "crash":
        ev["mode"] = "hard" if es.chance(hard_p) else "soft"
        ev["rebuild"] = es.chance(p_rebuild)
        ev["skew"] = es.chance(0.7)
        ev["lose_newest"] = es.chance(0.2)
      events.append(ev)
    return spec, events

  # ---------------------------------------------------------------- build
  def __init__(self, prop, spec, ctx):
    super(ModelWorld, self).__init__(prop, spec, ctx)
    tf, keras, tfl = env.mods()
    self.tf, self.keras, self.tfl = tf, keras, tfl
    self.ctx = ctx
    self.builder = builders.BUILDERS[spec["builder"]]
    self.feats = self.builder.features(spec)
    self.out_min, self.out_max = self.builder.bounds(spec)
    self.scratch = None
    self.images = []
    self.lost = set()
    self.prev_family = None
    self.prev_lr = None
    self.calls = []
    self.never_projected = set()
    self.restored_once = False
    self.compiled = False
    self.finalize_noise = 0.0
    self.deferred = bool(getattr(self.builder, "deferred_strictness",
                                 lambda sp: False)(spec))
    self.dirty_since_finalize = True
    with ctx.sut("construct"):
      self.model = self.builder.build(spec)
    self._attach(fresh=True)
    self._log_state(ctx, "construct")

  # -- model bookkeeping ----------------------------------------------------
  def _all_layers(self):
    return list(self.model._flatten_layers(include_self=False, recursive=True))  # pylint: disable=protected-access

  def _attach(self, fresh, ref=None):
    """(Re)discovers variables, installs constraint observers."""
    tfl = self.tfl
    self.tvars = list(self.model.trainable_variables)
    self.pool = common.OptimizerPool(lambda: list(self.tvars))
    self.kfls = []
    self.var_names = {}
    for i, v in enumerate(self.tvars):
      self.var_names[id(v)] = "v%d" % i
    self.cat_layers = {}
    for layer in self._all_layers():
      if isinstance(layer, tfl.layers.KroneckerFactoredLattice):
        self.kfls.append(layer)
      if isinstance(layer, tfl.layers.CategoricalCalibration):
        self.cat_layers[layer.name] = layer
    self.kfl_ref = []
    for k, layer in enumerate(self.kfls):
      # The initializer orders the kernel w.r.t. the initial sign of scale.
      kr = common.KflRef(layer, fresh=fresh)
      if ref is not None and k < len(ref.get("kfl", [])):
        kr.restore(ref["kfl"][k])
      self.kfl_ref.append(kr)
    for i, v in enumerate(self.tvars):
      if v.constraint is not None:
        common.install_proxy(v, "v%d" % i, self._on_constraint)
    self.kfl_kernel_index = {}
    self.kfl_scale_index = {}
    for k, layer in enumerate(self.kfls):
      for i, v in enumerate(self.tvars):
        if v is layer.kernel:
          self.kfl_kernel_index["v%d" % i] = k
        if v is layer.scale:
          self.kfl_scale_index["v%d" % i] = k
    if fresh:
      self.never_projected = set(
          "v%d" % i for i, v in enumerate(self.tvars)
          if v.constraint is not None)
    elif ref is not None:
      self.never_projected = set(ref.get("never_projected", []))
    if ref is not None:
      # Restored weights are as (un)finalized as they were when recorded.
      self.dirty_since_finalize = bool(ref.get("dirty_since_finalize", True))
      self.finalize_noise = float(ref.get("finalize_noise", 0.0))

  def _ref_state(self):
    return {
        "kfl": [kr.state() for kr in self.kfl_ref],
        "dirty_since_finalize": bool(self.dirty_since_finalize),
        "finalize_noise": float(self.finalize_noise),
        "never_projected": sorted(self.never_projected),
    }

  def _on_constraint(self, name, real, w=None, out=None):
    self.calls.append(name)
    self.ctx.log("constraint", name)
    self.never_projected.discard(name)
    k = self.kfl_kernel_index.get(name)
    if k is not None:
      self.kfl_ref[k].on_kernel_projection()
    k = self.kfl_scale_index.get(name)
    if k is not None and w is not None:
      self.kfl_ref[k].on_scale_constraint(w.numpy(), np.asarray(out))

  def _log_state(self, ctx, tag):
    ctx.log(tag, *common.np_weights(self.model.weights))

  def _scratch(self):
    if self.scratch is None:
      base = os.environ.get("VERIF_SCRATCH", tempfile.gettempdir())
      self.scratch = tempfile.mkdtemp(prefix="simlat-", dir=base)
    return self.scratch

  def close(self):
    if self.scratch is not None:
      shutil.rmtree(self.scratch, ignore_errors=True)
      self.scratch = None

  # ---------------------------------------------------------------- probes
  def _num_values(self, s, f, n, allow_missing=True):
    kps = f["keypoints"]
    lo, hi = kps[0], kps[-1]
    if f.get("integral"):
      vals = s.g.integers(int(lo), int(hi) + 1, size=n).astype(np.float32)
      if f.get("default") is not None:
        vals = np.where(s.g.random(n) < 0.15, np.float32(f["default"]), vals)
      return vals.astype(np.float32)
    r = s.g.random(n)
    u = s.g.uniform(lo, hi, size=n)
    on_kp = np.asarray(kps)[s.g.integers(0, len(kps), size=n)]
    below = lo - s.g.uniform(0.0, 2.0, size=n)
    above = hi + s.g.uniform(0.0, 2.0, size=n)
    if f.get("strict_range"):
      below, above = u, u
    out = np.where(r < 0.45, u, np.where(r < 0.65, on_kp, np.where(
        r < 0.75, below, np.where(r < 0.85, above, u))))
    if f["missing"] is not None:
      if allow_missing:
        out = np.where(r >= 0.85, f["missing"], out)
      out32 = out.astype(np.float32)
      if not allow_missing:
        # Must be non-missing: nudge anything that collides with the marker.
        hit = out32 == np.float32(f["missing"])
        out = np.where(hit, out + 0.37, out)
    return out.astype(np.float32)

  def _cat_values(self, s, f, n):
    vals = s.g.integers(0, f["num_buckets"], size=n)
    if f["default"] is not None:
      vals = np.where(s.g.random(n) < 0.15, f["default"], vals)
    if f.get("as_float"):
      return vals.astype(np.float32)
    return vals.astype(np.int32)

  def _base_points(self, s, n, corners=0):
    """n random points plus `corners` points whose numeric coordinates sit on
    keypoints / range ends (piecewise-multilinear models attain their extremes
    there)."""
    cols = []
    for j, f in enumerate(self.feats):
      fs = s.sub("col", j)
      if f["type"] == "num":
        col = self._num_values(fs, f, n)
        if corners:
          kps = np.asarray(f["keypoints"], dtype=np.float64)
          cs = fs.sub("corner")
          r = cs.g.random(corners)
          ends = np.where(cs.g.random(corners) < 0.5, kps[0], kps[-1])
          anyk = kps[cs.g.integers(0, len(kps), size=corners)]
          if f.get("integral") or f.get("strict_range"):
            outside = ends
          else:
            outside = np.where(cs.g.random(corners) < 0.5, kps[0] - 1.0,
                               kps[-1] + 1.0)
          extra = np.where(r < 0.55, ends, np.where(r < 0.85, anyk, outside))
          if f.get("integral"):
            extra = np.round(extra)
          col = np.concatenate([col, extra.astype(np.float32)])
        cols.append(col.astype(np.float32))
      else:
        cols.append(self._cat_values(fs, f, n + corners))
    return cols

  def _grid(self, s, f, k_random=4):
    kps = f["keypoints"]
    vals = list(kps) + list(s.g.uniform(kps[0], kps[-1], size=k_random))
    vals += [kps[0] - 0.5, kps[0] - float(s.g.uniform(0.0, 3.0)),
             kps[-1] + 0.5, kps[-1] + float(s.g.uniform(0.0, 3.0))]
    vals = np.unique(np.asarray(vals, dtype=np.float32))
    if f["missing"] is not None:
      vals = vals[vals != np.float32(f["missing"])]
    return np.sort(vals)

  def _assemble(self, base, n_base, s, k_random=4):
    """Builds one batch: base points, monotone lines, categorical pairs."""
    blocks = [[c.copy() for c in base]]
    plan = []
    offset = n_base
    for j, f in enumerate(self.feats):
      if f["type"] == "num" and f["direction"] != 0:
        grid = self._grid(s.sub("grid", j), f, k_random)
        g = len(grid)
        cols = [np.repeat(c, g) for c in base]
        cols[j] = np.tile(grid, n_base).astype(np.float32)
        blocks.append(cols)
        plan.append(("line", j, offset, g, grid))
        offset += n_base * g
      elif f["type"] == "cat" and f["pairs"]:
        for (a, b) in f["pairs"]:
          cols = [np.repeat(c, 2) for c in base]
          cols[j] = np.tile(np.asarray([a, b], dtype=base[j].dtype), n_base)
          blocks.append(cols)
          plan.append(("pair", j, offset, 2, (a, b)))
          offset += n_base * 2
    inputs = []
    for j in range(len(self.feats)):
      col = np.concatenate([blk[j] for blk in blocks], axis=0)
      inputs.append(col.reshape(-1, 1))
    return inputs, plan

  def _model_inputs(self, inputs):
    tf = self.tf
    conv = getattr(self.builder, "to_model_inputs", None)
    if conv is not None:
      return conv(tf, [tf.constant(c) for c in inputs])
    conv = getattr(self.builder, "to_model_inputs_spec", None)
    if conv is not None:
      return conv(tf, [tf.constant(c) for c in inputs], self.spec)
    return [tf.constant(c) for c in inputs]

  def _forward(self, inputs):
    y = self.model(self._model_inputs(inputs))
    y = np.asarray(y.numpy(), dtype=np.float64)
    return y.reshape(y.shape[0], -1)

  # ------------------------------------------------------------- magnitude
  def _magnitude(self):
    """Upper bound on the magnitude of any intermediate value (for tol)."""
    tfl = self.tfl
    B = 1.0
    for layer in self._all_layers():
      if isinstance(layer, tfl.layers.PWLCalibration):
        k = layer.kernel.numpy().astype(np.float64)
        b = float(np.max(np.sum(np.abs(k), axis=0)))
        mo = getattr(layer, "missing_output", None)
        if mo is not None:
          b = max(b, float(np.max(np.abs(np.asarray(mo)))))
      elif isinstance(layer, tfl.layers.CategoricalCalibration):
        b = float(np.max(np.abs(layer.kernel.numpy())))
      elif isinstance(layer, tfl.layers.Lattice):
        b = float(np.max(np.abs(layer.kernel.numpy())))
      elif isinstance(layer, tfl.layers.KroneckerFactoredLattice):
        k = layer.kernel.numpy().astype(np.float64)
        sc = layer.scale.numpy().astype(np.float64)
        bi = layer.bias.numpy().astype(np.float64)
        L = k.shape[1]
        units, terms = sc.shape
        dims = k.shape[2] // units
        kk = k.reshape(L, units, dims, terms)
        prod = np.prod(np.max(np.abs(kk), axis=0), axis=1)
        b = float(np.max(np.abs(bi) + np.mean(np.abs(sc) * prod, axis=1)))
      elif isinstance(layer, tfl.layers.Linear):
        k = layer.kernel.numpy().astype(np.float64)
        b = float(np.max(np.sum(np.abs(k), axis=0))) * B
        if layer.use_bias:
          b += float(np.max(np.abs(layer.bias.numpy())))
      else:
        continue
      if not np.isfinite(b):
        return float("inf")
      B = max(B, b)
    return B

  def _noise_amplification(self):
    """Extra tolerance for order comparisons: float32 noise in a computed
    value (a lattice output) is amplified by a steep downstream PWL calibrator
    (learned keypoints can make a piece 1e-6 wide, or a step). The amplified
    noise is at most the calibrator's total variation."""
    tfl, keras = self.tfl, self.keras
    extra = 0.0
    B = 1.0
    for layer in self._all_layers():
      if isinstance(layer, tfl.layers.PWLCalibration):
        fed_by_input = True
        try:
          for node in layer.inbound_nodes:
            inb = node.inbound_layers
            inb = inb if isinstance(inb, (list, tuple)) else [inb]
            if any(not isinstance(l, keras.layers.InputLayer) for l in inb):
              fed_by_input = False
        except Exception:  # pylint: disable=broad-except
          fed_by_input = False
        k = layer.kernel.numpy().astype(np.float64)
        h = np.abs(k[1:])
        if not fed_by_input and h.size:
          if layer.input_keypoints_type == "learned_interior":
            lg = layer.interpolation_logits.numpy().astype(np.float64)
            e = np.exp(lg - lg.max(axis=1, keepdims=True))
            kps = np.asarray(layer.input_keypoints, dtype=np.float64)
            lens = (e / e.sum(axis=1, keepdims=True)).T * (kps[-1] - kps[0])
          else:
            kps = np.asarray(layer.input_keypoints, dtype=np.float64)
            lens = np.diff(kps)[:, None]
          lens = np.broadcast_to(lens, h.shape) if lens.shape != h.shape else lens
          slope = float(np.max(h / np.maximum(lens, 1e-30)))
          noise_in = 4e-7 * (1.0 + B)
          extra += min(slope * noise_in, float(np.max(np.sum(h, axis=0))))
        B = max(B, float(np.max(np.sum(np.abs(k), axis=0))))
      elif isinstance(layer, tfl.layers.Lattice):
        B = max(B, float(np.max(np.abs(layer.kernel.numpy()))))
    return extra

  # ---------------------------------------------------------------- events
  def apply(self, ev, ctx):
    self.ctx = ctx
    getattr(self, "_ev_" + ev["kind"])(ev, ctx)
    for kr in self.kfl_ref:
      kr.end_of_event()
    self._log_state(ctx, "state")

  def _hostile_loss(self, es):
    """A loss whose minimisation breaks monotonicity / bounds."""
    tf = self.tf
    n = 6
    base = self._base_points(es.sub("base"), n)
    inputs, plan = self._assemble(base, n, es.sub("asm"), k_random=2)
    y = self.model(self._model_inputs(inputs))
    if getattr(self.builder, "RAGGED", False):
      # Rows are aggregated: only a regression-style hostile loss applies.
      noise = es.normal(size=tuple(y.shape)).astype(np.float32)
      return tf.reduce_sum(y * tf.constant(noise)) + es.choice(
          [1.0, -1.0]) * tf.reduce_sum(y)
    y = tf.reshape(y, [len(inputs[0]), -1])
    loss = 0.0
    w_mono = es.uniform(0.5, 2.0)
    for kind, j, off, g, info in plan:
      seg = tf.reshape(y[off:off + n * g], [n, g, -1])
      d = seg[:, 1:] - seg[:, :-1]
      if kind == "line":
        loss = loss + w_mono * self.feats[j]["direction"] * tf.reduce_sum(d)
      else:
        loss = loss + w_mono * tf.reduce_sum(d)
    sgn = es.choice([1.0, -1.0])
    if self.out_max is None and self.out_min is not None:
      sgn = 1.0
    if self.out_min is None and self.out_max is not None:
      sgn = -1.0
    loss = loss + sgn * es.uniform(0.2, 2.0) * tf.reduce_sum(y[:n])
    noise = es.normal(size=(n, int(y.shape[-1]))).astype(np.float32)
    loss = loss + tf.reduce_sum(y[:n] * tf.constant(noise))
    return loss

  def _ev_step(self, ev, ctx):
    tf = self.tf
    es = rng_lib.Stream(ev["seed"], "step")
    lr, mag = float(ev["lr"]), float(ev["mag"])
    names = ["v%d" % i for i in range(len(self.tvars))]
    adv = None
    if ev["grad"] in ("adv", "mix"):
      with ctx.sut("gradient"):
        with tf.GradientTape() as tape:
          loss = self._hostile_loss(es.sub("loss"))
        adv = tape.gradient(loss, self.tvars)
    grads = []
    for i, v in enumerate(self.tvars):
      gs = es.sub("g", i)
      kind = ev["grad"]
      if kind == "mix":
        kind = gs.choice(["adv", "blast", "zero"])
      shape = tuple(v.shape.as_list())
      if kind == "adv" and adv[i] is not None:
        g = np.asarray(adv[i].numpy(), dtype=np.float32)
        m = float(np.max(np.abs(g))) if g.size else 0.0
        if m > 0 and np.isfinite(m):
          g = g * (mag / m)
        else:
          g = gs.normal(size=shape, scale=mag * 0.1)
      elif kind == "zero":
        g = np.zeros(shape, dtype=np.float32)
      else:
        g = gs.normal(size=shape, scale=mag)
      g = np.clip(np.nan_to_num(np.asarray(g, dtype=np.float32)), -1e5, 1e5)
      grads.append(g.reshape(shape))
    idx = list(range(len(self.tvars)))
    if ev["order"] == "reversed":
      idx = idx[::-1]
    elif ev["order"] == "shuffled":
      idx = [idx[k] for k in es.sub("perm").permutation(len(idx))]
    if ev["order"] != "canonical" and len(idx) > 1:
      ctx.fire("order_permute")
    if ev["p_drop"] > 0:
      keep = [i for i in idx if not es.sub("drop", i).chance(ev["p_drop"])]
      if not keep:
        keep = [idx[0]]
      if len(keep) < len(idx):
        ctx.fire("partial_update")
      idx = keep
    if self.prev_family is not None and self.prev_family != ev["family"]:
      ctx.fire("protocol_switch")
    if self.prev_lr is not None and (lr > 10 * self.prev_lr or
                                     lr < 0.1 * self.prev_lr):
      ctx.fire("lr_jump")
    self.prev_family, self.prev_lr = ev["family"], lr
    with ctx.sut("optimizer"):
      opt = self.pool.get(ev["family"], ev["opt"], lr)
    gv = [(tf.constant(grads[i]), self.tvars[i]) for i in idx]
    ctx.log("grads", idx, *[grads[i] for i in idx])
    self.calls = []
    with ctx.sut("apply_gradients"):
      opt.apply_gradients(gv)
    ctx.steps += 1
    self.dirty_since_finalize = True
    if len(idx) == len(self.tvars):
      self.finalize_noise = 0.0  # every variable rewritten via assign()
    ctx.token("step:%s:%s:%s:%d/%d:%s" % (ev["family"][0], ev["opt"],
                                          ev["order"][0], len(idx),
                                          len(self.tvars), ev["grad"]))

  def _ev_fit(self, ev, ctx):
    tf, keras = self.tf, self.keras
    if getattr(self.builder, "RAGGED", False):
      ctx.count("noop:fit_on_ragged_model")
      return
    es = rng_lib.Stream(ev["seed"], "fit")
    n = int(ev["n"])
    x = self._base_points(es.sub("x"), n)
    x = [c.reshape(-1, 1) for c in x]
    # Hostile labels: anti-monotone in every constrained numeric feature and
    # far outside the output bounds.
    y = np.zeros((n, 1), dtype=np.float32)
    for j, f in enumerate(self.feats):
      if f["type"] == "num" and f["direction"] != 0:
        y[:, 0] -= f["direction"] * x[j][:, 0]
    y = y * float(ev["mag"]) + es.normal(size=(n, 1)).astype(np.float32)
    out_dim = int(self.model.output_shape[-1])
    if out_dim != 1:
      y = np.repeat(y, out_dim, axis=1)
    with ctx.sut("compile"):
      opt = common.make_optimizer(ev.get("family", "new"), ev["opt"],
                                  float(ev["lr"]))
      self.model.compile(optimizer=opt, loss="mse", run_eagerly=bool(
          ev["eager"]))
    self.compiled = True
    self.calls = []
    if getattr(self.builder, "to_model_inputs_spec", None) is not None:
      x = self._model_inputs(x)
    try:
      with ctx.sut("fit"):
        self.model.fit(x, y, batch_size=int(ev["batch"]), epochs=1, verbose=0,
                       shuffle=False)
    except engine.SutError:
      # Several optimizer steps run inside one fit(); a diverging one can
      # leave non-finite weights, on which the next forward pass may raise
      # (NaN into a simplex gather). Non-finite weights are outside every
      # claimed property: the run ends here. With finite weights the error
      # stands.
      if common.all_finite(common.np_weights(self.model.weights)):
        raise
      ctx.count("guard:nonfinite_during_fit")
      self.stop_requested = True
      return
    ctx.steps += max(1, n // int(ev["batch"]))
    # Model.fit applies constraints inside its (possibly traced) train step in
    # variable creation order; kernel projections therefore saw the final
    # sign of scale.
    for kr in self.kfl_ref:
      kr.on_kernel_projection()
    self.never_projected.clear()
    self.dirty_since_finalize = True
    ctx.fire("keras_fit")
    ctx.token("fit:%s:%s:%d" % (ev.get("family", "new")[0], ev["opt"],
                                int(ev["eager"])))

  def _ev_finalize(self, ev, ctx):
    n = 0
    for layer in self._all_layers():
      fin = getattr(layer, "finalize_constraints", None)
      if fin is None:
        continue
      # finalize writes `var += projected - var`: absolute rounding error of
      # about one ulp of the old value stays in the variable.
      before = common.max_abs(common.np_weights(layer.weights))
      self.finalize_noise = max(self.finalize_noise, before * 2.0**-22)
      is_kfl = isinstance(layer, self.tfl.layers.KroneckerFactoredLattice)
      pre = layer.scale.numpy() if is_kfl else None
      with ctx.sut("finalize_constraints"):
        fin()
      n += 1
      if is_kfl:
        for k, kl in enumerate(self.kfls):
          if kl is layer:
            self.kfl_ref[k].on_kernel_projection(np.sign(pre))
            self.kfl_ref[k].on_scale_constraint(pre, layer.scale.numpy())
    if n:
      ctx.fire("finalize")
    self.dirty_since_finalize = False
    ctx.token("finalize")

  # -- checkpoints ----------------------------------------------------------
  def _custom_objects(self):
    return self.tfl.premade.get_custom_objects()

  def _probe_for_image(self, s):
    n = 10
    base = self._base_points(s, n)
    return [c.reshape(-1, 1) for c in base]

  def _assert_status(self, model):
    ok = True
    why = None
    for layer in model._flatten_layers(include_self=False, recursive=True):  # pylint: disable=protected-access
      ac = getattr(layer, "assert_constraints", None)
      if ac is None:
        continue
      try:
        ac()
      except Exception as e:  # pylint: disable=broad-except
        ok = False
        why = "%s: %s" % (layer.name, str(e)[:200])
        break
    return ok, why

  def _layer_configs(self, model):
    """(class name, JSON-normalised config) of every tfl layer, in order."""
    out = []
    for layer in model._flatten_layers(include_self=False, recursive=True):  # pylint: disable=protected-access
      if type(layer).__module__.startswith("tensorflow_lattice"):
        cfg = _strip_object_names(json_norm(layer.get_config()))
        cfg.pop("name", None)
        out.append([type(layer).__name__, cfg])
    return out

  def _layer_attrs(self, model):
    """Constructor-argument attributes of every tfl layer (the rebuilt object
    must have been configured like the original)."""
    import inspect
    out = []
    for layer in model._flatten_layers(include_self=False, recursive=True):  # pylint: disable=protected-access
      if not type(layer).__module__.startswith("tensorflow_lattice"):
        continue
      attrs = {}
      try:
        params = list(inspect.signature(type(layer).__init__).parameters)
      except (TypeError, ValueError):
        params = []
      for name in params:
        if name in ("self", "kwargs", "name", "dtype") or not hasattr(
            layer, name):
          continue
        val = getattr(layer, name)
        if val is None or isinstance(val, (bool, int, float, str, list, tuple,
                                           np.ndarray)) or type(
                                               val).__name__ == "ListWrapper":
          try:
            attrs[name] = json_norm(val)
          except (TypeError, ValueError):
            pass
      # Initializer objects the layer was configured with (a rebuilt layer
      # must initialise like the original).
      for name in ("kernel_initializer", "bias_initializer",
                   "scale_initializer"):
        init = getattr(layer, name, None)
        if init is not None and hasattr(init, "get_config") and not isinstance(
            init, str):
          try:
            attrs[name] = {"class": type(init).__name__,
                           "config": json_norm(init.get_config())}
          except (TypeError, ValueError):
            pass
      out.append([type(layer).__name__, attrs])
    return out

  def _reg_loss(self, model):
    """Total regularization penalty on the current weights."""
    try:
      losses = model.losses
      return float(np.sum([float(l.numpy()) for l in losses])) if losses else 0.0
    except Exception:  # pylint: disable=broad-except
      return None

  def _var_meta(self, model):
    out = []
    for v in model.weights:
      out.append([v.name.split("/")[-1].split(":")[0],
                  [int(d) for d in v.shape], v.dtype.name, bool(v.trainable),
                  v.constraint is not None])
    return out

  def _ev_checkpoint(self, ev, ctx):
    fmt = ev["fmt"]
    if fmt in ("weights_v3", "weights_tf") and self.compiled:
      # Keras' own v3 weights files also hold compile-time metric variables and
      # only load into an identically compiled model; not a tfl concern.
      fmt = "weights_h5"
    cid = len(self.images)
    es = rng_lib.Stream(ev["seed"], "ckpt")
    d = self._scratch()
    # Observers must not end up inside saved artefacts.
    for v in self.tvars:
      common.remove_proxy(v)
    try:
      with ctx.sut("get_config"):
        cfg = json_norm(self.model.get_config())
        js = self.model.to_json()
      img = {
          "id": cid,
          "fmt": fmt,
          "json": js,
          "config": cfg,
          "weights": [np.array(w) for w in self.model.get_weights()],
          "var_meta": self._var_meta(self.model),
          "layer_configs": self._layer_configs(self.model),
          "layer_attrs": self._layer_attrs(self.model),
          "reg_loss": self._reg_loss(self.model),
          "ref": self._ref_state(),
          "spec": self.spec,
      }
      img["probe_x"] = self._probe_for_image(es.sub("probe"))
      with ctx.sut("call"):
        img["probe_y"] = self._forward(img["probe_x"])
      img["assert_ok"], _ = self._assert_status(self.model)
      path = os.path.join(d, "ckpt%d" % cid)
      with ctx.sut("save:" + fmt):
        if fmt == "weights_h5":
          path += "_w.h5"
          self.model.save_weights(path)
        elif fmt == "weights_v3":
          path += ".weights.h5"
          self.model.save_weights(path)
        elif fmt == "weights_tf":
          self.model.save_weights(path)
        elif fmt == "full_h5":
          path += ".h5"
          # Optimizer slots of a model rebuilt by Keras from JSON lose their
          # layer prefix (build_from_config) and collide inside legacy H5
          # files - Keras naming, no tfl code involved; optimizer state is not
          # part of any claimed property.
          self.model.save(path, include_optimizer=False)
        elif fmt == "keras":
          path += ".keras"
          self.model.save(path)
        elif fmt == "savedmodel":
          self.model.save(path, save_format="tf")
      img["path"] = path
    finally:
      for i, v in enumerate(self.tvars):
        if v.constraint is not None:
          common.install_proxy(v, "v%d" % i, self._on_constraint)
    self.images.append(img)
    ctx.log("checkpoint", cid, fmt, img["probe_y"].astype(np.float32))
    ctx.fire("checkpoint:" + fmt)
    ctx.token("ckpt:" + fmt)

  def _load(self, img, ctx, rebuild=False):
    """Rebuilds a model from a durable image using only the tfl registry, or
    (rebuild=True, weight-only formats) by running the user's model-building
    code again and loading the saved weights into it."""
    keras = self.keras
    co = self._custom_objects()
    fmt = img["fmt"]
    with ctx.sut("restore:" + fmt):
      if fmt in ("memory", "weights_h5", "weights_v3", "weights_tf"):
        deferred = bool(rebuild and fmt == "weights_tf" and getattr(
            self.builder, "can_defer", lambda sp: False)(self.spec))
        if deferred:
          # Unbuilt model: the checkpoint is matched now, values are restored
          # when the variables are created by the first call.
          model = self.builder.build(self.spec, defer=True)
          model.load_weights(img["path"])
          self.model, old = model, self.model
          try:
            model(self._model_inputs(img["probe_x"]))
          finally:
            self.model = old
          ctx.fire("rebuild_from_user_code")
          ctx.fire("deferred_restore")
          return model
        if rebuild:
          model = self.builder.build(self.spec)
          ctx.fire("rebuild_from_user_code")
        else:
          model = keras.models.model_from_json(img["json"], custom_objects=co)
        if fmt == "memory":
          model.set_weights(img["weights"])
        else:
          model.load_weights(img["path"])
      else:
        model = keras.models.load_model(img["path"], custom_objects=co)
    return model

  def _pick_image(self, ev, ctx):
    alive = [im for im in self.images if im["id"] not in self.lost]
    if not alive:
      return None
    if ev.get("lose_newest") and len(alive) >= 2:
      # The newest checkpoint was never made durable (crash during save).
      self.lost.add(alive[-1]["id"])
      alive = alive[:-1]
      ctx.fire("lost_checkpoint")
      ctx.reach("restore_from_non_newest")
    return alive[-1]

  def _ev_crash(self, ev, ctx):
    img = self._pick_image(ev, ctx)
    if img is None:
      ctx.count("noop:crash_without_checkpoint")
      return
    es = rng_lib.Stream(ev["seed"], "crash")
    hard_result = None
    rebuild = bool(ev.get("rebuild")) and img["fmt"] in (
        "memory", "weights_h5", "weights_v3", "weights_tf")
    img["last_restore_rebuild"] = rebuild
    if ev["mode"] == "hard" and img["fmt"] != "memory":
      hard_result = self._hard_restart(img, es, ctx, rebuild)
    # Soft restart: every live object is dropped, process-global state is
    # reset and skewed, then the model is rebuilt from the durable image.
    for v in self.tvars:
      common.remove_proxy(v)
    self.model = None
    self.tvars = []
    self.kfls = []
    self.keras.backend.clear_session()
    if ev.get("skew"):
      self._skew_globals(es.sub("skew"), ctx)
    model = self._load(img, ctx, rebuild)
    self.model = model
    self.compiled = bool(getattr(model, "optimizer", None) is not None and
                         img["fmt"] in ("full_h5", "keras", "savedmodel"))
    self._attach(fresh=False, ref=img["ref"])
    ctx.restarts += 1
    ctx.fire("crash_" + ev["mode"])
    ctx.token("crash:%s:%s" % (ev["mode"][0], img["fmt"]))
    self._pending_compare = (img, hard_result)
    if img.get("restored_before"):
      ctx.reach("second_hop_restore")
    self.restored_once = True

  def _ev_clone(self, ev, ctx):
    """keras.models.clone_model: every layer is rebuilt in memory with
    cls.from_config(layer.get_config()) (no JSON hop), the weights are copied
    over and training continues on the clone."""
    keras = self.keras
    es = rng_lib.Stream(ev["seed"], "clone")
    for v in self.tvars:
      common.remove_proxy(v)
    img = {
        "id": -1, "fmt": "clone",
        "config": json_norm(self.model.get_config()),
        "weights": [np.array(w) for w in self.model.get_weights()],
        "var_meta": self._var_meta(self.model),
        "layer_configs": self._layer_configs(self.model),
        "layer_attrs": self._layer_attrs(self.model),
        "reg_loss": self._reg_loss(self.model),
        "ref": self._ref_state(),
    }
    img["probe_x"] = self._probe_for_image(es.sub("probe"))
    with ctx.sut("call"):
      img["probe_y"] = self._forward(img["probe_x"])
    img["assert_ok"], _ = self._assert_status(self.model)
    with ctx.sut("clone_model"):
      with keras.utils.custom_object_scope(self._custom_objects()):
        clone = keras.models.clone_model(self.model)
      clone.set_weights(img["weights"])
    self.model = clone
    self.compiled = False
    self._attach(fresh=False, ref=img["ref"])
    self._pending_compare = (img, None)
    ctx.fire("clone_model")
    ctx.token("clone")

  def _ev_reload(self, ev, ctx):
    """Restores saved weights into the live model (no crash)."""
    alive = [im for im in self.images if im["id"] not in self.lost]
    if not alive:
      ctx.count("noop:reload_without_checkpoint")
      return
    img = alive[-1]
    with ctx.sut("reload:" + img["fmt"]):
      if img["fmt"] in ("weights_h5", "weights_tf") or (
          img["fmt"] == "weights_v3" and not self.compiled):
        self.model.load_weights(img["path"])
      else:
        self.model.set_weights(img["weights"])
    for k, kr in enumerate(self.kfl_ref):
      if k < len(img["ref"]["kfl"]):
        kr.restore(img["ref"]["kfl"][k])
    self.never_projected = set(img["ref"].get("never_projected", []))
    self.dirty_since_finalize = bool(img["ref"].get("dirty_since_finalize",
                                                    True))
    self.finalize_noise = float(img["ref"].get("finalize_noise", 0.0))
    self._pending_compare = (img, None)
    ctx.fire("reload_weights")
    ctx.token("reload:" + img["fmt"])

  def _skew_globals(self, s, ctx):
    tf, keras, tfl = self.tf, self.keras, self.tfl
    random.seed(s.seed31())
    np.random.seed(s.seed31())
    tf.random.set_seed(s.seed31())
    for _ in range(s.integer(0, 3)):
      random.random()
      np.random.random()
    # Shift Keras uid counters with unrelated layers.
    for _ in range(s.integer(0, 3)):
      lay = tfl.layers.PWLCalibration(input_keypoints=[0.0, 1.0])
      lay(tf.zeros([1, 1]))
      keras.layers.Dense(1)(tf.zeros([1, 1]))
    ctx.fire("global_state_skew")

  def _hard_restart(self, img, es, ctx, rebuild=False):
    """Loads the checkpoint in a fresh interpreter (real process restart)."""
    d = self._scratch()
    job = os.path.join(d, "job%d_%d.json" % (img["id"], ctx.micro))
    xs = os.path.join(d, "job%d_%d_x.npz" % (img["id"], ctx.micro))
    np.savez(xs, *img["probe_x"])
    out = job.replace(".json", "_out.npz")
    with open(job, "w") as f:
      json.dump({"fmt": img["fmt"], "path": img["path"], "json": img["json"],
                 "x": xs, "out": out, "repo": env.repo_root(),
                 "rebuild": bool(rebuild), "spec": engine.jsonable(self.spec),
                 "ragged": bool(getattr(self.builder, "RAGGED", False)),
                 "rng_seed": es.seed31()},
                f)
    e = dict(os.environ)
    e["PYTHONHASHSEED"] = str(es.integer(1, 2**31 - 1))
    e["VERIF_REPO"] = env.repo_root()
    cmd = [sys.executable, "-m", "simlat.restore_worker", job]
    p = subprocess.run(cmd, cwd=os.path.dirname(os.path.dirname(
        os.path.dirname(os.path.abspath(__file__)))), env=e,
                       stdout=subprocess.PIPE, stderr=subprocess.PIPE,
                       timeout=300)
    ctx.fire("hard_restart")
    res_path = job.replace(".json", "_res.json")
    if not os.path.exists(res_path):
      raise RuntimeError("restore worker died: rc=%s %s" %
                         (p.returncode, p.stderr.decode()[-1500:]))
    with open(res_path) as f:
      res = json.load(f)
    if res.get("ok"):
      res["y"] = np.load(out)["y"]
    return res

  # ---------------------------------------------------------------- check
  _pending_compare = None

  def check(self, ctx, ev):
    out = []
    pending, self._pending_compare = self._pending_compare, None
    weights = common.np_weights(self.model.weights)
    if not common.all_finite(weights):
      self.stop_requested = True
      if ev["kind"] in ("finalize", "checkpoint", "crash", "reload",
                        "construct", "clone"):
        return [engine.Violation("nonfinite_weights", {"after": ev["kind"]})]
      ctx.count("guard:nonfinite_after_update")
      return []
    S = self._magnitude()
    if not S < MAG_GUARD:
      self.stop_requested = True
      ctx.count("guard:magnitude")
      return []
    ctx.abstract((ev["kind"], bool(self.restored_once), bool(self.compiled),
                  self._stale_kfl(), bool(self.never_projected),
                  len([im for im in self.images if im["id"] not in self.lost])
                  > 0, bool(self.deferred and self.dirty_since_finalize)))
    if self.prop == "C11" and ev["kind"] == "construct":
      out.extend(self._check_objects(ctx))
    if pending is not None and self.prop == "C11":
      out.extend(self._compare_restore(pending[0], pending[1], ctx, ev))
      if not out and ev["kind"] == "crash":
        out.extend(self._check_objects(ctx))
      pending[0]["restored_before"] = True
    elif pending is not None:
      pending[0]["restored_before"] = True
    if self.prop == "C03":
      if self.deferred and self.dirty_since_finalize:
        # monotonic_at_every_step=False: strictness is documented to hold only
        # after finalize_constraints(); the obligation is inactive until then.
        ctx.count("check:inactive")
      else:
        out.extend(self._check_shape(ctx, ev, S))
    return out

  def _stale_kfl(self):
    """True if some KFL unit is stale only because of raw writes to scale."""
    return any(bool(np.any(kr.stale_units())) for kr in self.kfl_ref)

  def _check_shape(self, ctx, ev, S):
    ps = rng_lib.Stream(ctx.run_seed, "probe", ev.get("id"))
    n_base = 14
    base = self._base_points(ps.sub("base"), 8, corners=6)
    inputs, plan = self._assemble(base, n_base, ps.sub("asm"))
    with ctx.sut("call"):
      y = self._forward(inputs)
    ctx.log("probe", y.astype(np.float32))
    ctx.count("probe_points", int(y.shape[0]))
    ctx.count("check:active")
    conds_common = self._structural_conditions(ctx)
    if not np.all(np.isfinite(y)):
      r = int(np.argmax(~np.isfinite(y).all(axis=1)))
      return [engine.Violation("nonfinite_output", {
          "after": ev["kind"], "x": [c[r, 0] for c in inputs]},
                               conditions=conds_common)]
    tol = (1e-5 * (1.0 + S + float(np.max(np.abs(y)))) +
           self.finalize_noise * (1.0 + S))
    out = []
    # Output bounds for every input, missing values included.
    if self.out_min is not None or self.out_max is not None:
      lo_v = hi_v = -np.inf
      if self.out_min is not None:
        lo_v = float(self.out_min - np.min(y))
      if self.out_max is not None:
        hi_v = float(np.max(y) - self.out_max)
      worst = max(lo_v, hi_v)
      if worst > tol:
        r = int(np.argmin(y.min(axis=1)) if lo_v >= hi_v else
                np.argmax(y.max(axis=1)))
        out.append(engine.Violation(
            "bounds", {
                "min_output": float(np.min(y)),
                "max_output": float(np.max(y)),
                "output_min": self.out_min,
                "output_max": self.out_max,
                "x": [c[r, 0] for c in inputs],
            }, margin=worst, tol=tol,
            conditions=conds_common + self._bounds_conditions()))
    order_tol = tol + self._noise_amplification()
    for kind, j, off, g, info in plan:
      seg = y[off:off + n_base * g].reshape(n_base, g, -1)
      d = seg[:, 1:, :] - seg[:, :-1, :]
      f = self.feats[j]
      sign = f["direction"] if kind == "line" else 1
      worst = float(-np.min(sign * d))
      if worst > order_tol:
        i, k, u = np.unravel_index(np.argmin(sign * d), d.shape)
        r0 = off + i * g + k
        conds = list(conds_common)
        cls = "mono"
        if kind == "pair":
          cls = "cat_order"
          conds += self._cat_conditions(f)
          if self.spec.get("model", {}).get("structure") == "rtl":
            conds.append("rtl_categorical_feature")
        out.append(engine.Violation(
            cls, {
                "feature": f["name"],
                "direction": sign,
                "x_lo": [c[r0, 0] for c in inputs],
                "x_hi": [c[r0 + 1, 0] for c in inputs],
                "f_lo": seg[i, k, u],
                "f_hi": seg[i, k + 1, u],
                "pair": info if kind == "pair" else None,
            }, margin=worst, tol=order_tol, conditions=conds))
        break
    return out

  def _structural_conditions(self, ctx):
    """Conditions under which a recorded known finding may apply."""
    tfl = self.tfl
    conds = []
    if self._stale_kfl():
      conds.append("stale_kernel_projection")
      ctx.reach("stale_sign_present")
    for layer in self._all_layers():
      if not isinstance(layer, tfl.layers.PWLCalibration):
        continue
      if layer.input_keypoints_type == "learned_interior":
        logits = layer.interpolation_logits.numpy().astype(np.float32)
        e = np.exp(logits - logits.max(axis=1, keepdims=True))
        lengths = (e / e.sum(axis=1, keepdims=True)).astype(np.float32)
        if np.any(lengths < np.finfo(np.float32).tiny):
          if "pwl_zero_length_piece" not in conds:
            conds.append("pwl_zero_length_piece")
            ctx.reach("pwl_zero_length_piece")
      mono = layer.monotonicity not in (0, "none", None)
      conv = layer.convexity not in (0, "none", None)
      if mono and conv and (layer.output_min is not None or
                            layer.output_max is not None):
        k = layer.kernel.numpy().astype(np.float64)
        outs = np.cumsum(k, axis=0)
        eps = 1e-4 * (1.0 + float(np.max(np.abs(outs))))
        bad = False
        if layer.output_min is not None and np.min(outs) < layer.output_min - eps:
          bad = True
        if layer.output_max is not None and np.max(outs) > layer.output_max + eps:
          bad = True
        if bad and "pwl_convex_bounds_unmet" not in conds:
          conds.append("pwl_convex_bounds_unmet")
          ctx.reach("pwl_convex_bounds_unmet")
    return conds

  def _cat_conditions(self, f):
    """Structural conditions for categorical-ordering violations."""
    conds = []
    # The calibrator of this feature has never had its constraint applied.
    for i, v in enumerate(self.tvars):
      if "v%d" % i in self.never_projected and (
          "_" + f["name"] + "/") in v.name:
        conds.append("categorical_never_projected")
        break
    return conds

  def _bounds_conditions(self):
    conds = []
    tfl = self.tfl
    for layer in self._all_layers():
      if (isinstance(layer, tfl.layers.Linear) and
          layer.normalization_order):
        k = layer.kernel.numpy()
        if np.any(np.sum(np.abs(k), axis=0) < 1e-6):
          conds.append("linear_weights_all_zero")
          break
    return conds

  # ------------------------------------------- C11 in-memory object round trip
  def _objects(self):
    """(label, object, kind, argument) for every config-bearing object."""
    out = []
    mc = getattr(self.model, "model_config", None)
    if mc is not None:
      out.append(("model_config", mc, "config", None))
      for fc in mc.feature_configs or []:
        out.append(("feature_config:" + fc.name, fc, "config", None))
        for sub in (fc.reflects_trust_in or []) + (fc.dominates or []) + (
            fc.regularizer_configs or []):
          out.append(("nested_config", sub, "config", None))
    if (mc is not None and
        type(self.model).__module__.startswith("tensorflow_lattice")):
      # The premade model class itself (get_config -> from_config, twice from
      # the same dictionary); its weights/outputs are compared at restores.
      out.append(("model:" + type(self.model).__name__, self.model, "layer",
                  None))
    for layer in self._all_layers():
      if not type(layer).__module__.startswith("tensorflow_lattice"):
        continue
      out.append(("layer:" + layer.name, layer, "layer", None))
      if (isinstance(layer, self.tfl.layers.KroneckerFactoredLattice) and
          getattr(layer, "bias", None) is not None):
        # build() creates this initializer inline; it is a public class with
        # get_config, so it is rebuilt with the layer's own arguments.
        out.append((layer.name + ".bias_initializer(inline)",
                    self.tfl.kronecker_factored_lattice_layer.BiasInitializer(
                        layer.output_min, layer.output_max),
                    "initializer", (layer.bias, None)))
      for attr in ("kernel_initializer", "bias_initializer",
                   "scale_initializer"):
        init = getattr(layer, attr, None)
        if init is not None and hasattr(init, "get_config") and not isinstance(
            init, str):
          var = getattr(layer, attr.split("_")[0], None)
          out.append(("%s.%s" % (layer.name, attr), init, "initializer",
                      (var, getattr(layer, "scale", None)) if var is not None
                      else None))
      for attr in ("kernel_regularizer", "bias_regularizer"):
        regs = getattr(layer, attr, None)
        if isinstance(regs, (list, tuple)):
          for r in regs:
            if hasattr(r, "get_config"):
              kern = getattr(layer, attr.split("_")[0], None)
              out.append(("%s.%s" % (layer.name, attr), r, "regularizer", kern))
      for v in layer.weights:
        c = v.constraint
        if isinstance(c, common.ConstraintProxy):
          c = c.real
        if c is not None and type(c).__module__.startswith(
            "tensorflow_lattice"):
          out.append(("%s.constraint(%s)" % (layer.name, v.name), c,
                      "constraint", v))
    return out

  def _check_objects(self, ctx):
    out = []
    co = self._custom_objects()
    tf = self.tf
    for label, obj, kind, arg in self._objects():
      cls = type(obj)
      try:
        with ctx.sut("objects:" + label):
          c1 = obj.get_config()
          # The same config dictionary must be usable more than once.
          given = copy.copy(c1) if kind != "config" else json_norm(c1)
          for attempt in range(2):
            if kind == "config":
              obj2 = cls.from_config(given, custom_objects=co)
            elif kind == "layer" and attempt == 1 and _takes_custom_objects(
                cls):
              # Second rebuild: the tfl registry handed over through the
              # from_config parameter made for it, no enclosing scope.
              ctx.count("reach:from_config_custom_objects_arg")
              obj2 = cls.from_config(given, custom_objects=co)
            elif kind == "layer":
              with self.keras.utils.custom_object_scope(co):
                obj2 = cls.from_config(given)
            else:
              obj2 = cls.from_config(given)
          c2 = obj2.get_config()
      except engine.SutError as e:
        out.append(engine.Violation(
            "exception:%s@object_from_config" % e.exc_type,
            {"object": label, "class": cls.__name__, "text": e.exc_text}))
        continue
      ctx.count("objects_round_tripped")
      ctx.count("roundtrip_class:%s.%s" % (
          cls.__module__.rsplit(".", 1)[-1], cls.__name__))
      diffs = config_diff(json_norm(c1), json_norm(c2))
      if diffs:
        out.append(engine.Violation("object_config_drift", {
            "object": label, "class": cls.__name__, "diffs": diffs}))
        continue
      try:
        with ctx.sut("objects_apply:" + label):
          if kind == "constraint":
            a = np.asarray(obj(tf.identity(arg)))
            b = np.asarray(obj2(tf.identity(arg)))
          elif kind == "regularizer" and arg is not None:
            a = np.asarray(obj(tf.identity(arg)))
            b = np.asarray(obj2(tf.identity(arg)))
          elif (kind == "initializer" and arg is not None and
                cls.__module__.startswith("tensorflow_lattice")):
            var, scale = arg
            kw = {}
            try:
              import inspect
              if "scale" in inspect.signature(obj.__call__).parameters:
                kw["scale"] = scale
            except (TypeError, ValueError):
              pass
            shape = tuple(int(d) for d in var.shape)
            # Same program, same global seed: the original and the rebuilt
            # initializer must draw the same values (a seeded one because of
            # its seed, an unseeded one because it is the first random op).
            gseed = rng_lib.derive(ctx.run_seed, "init-compare", label) % (
                2**31 - 1)
            def reseed():
              # All three global RNGs the library draws from.
              random.seed(gseed)
              np.random.seed(gseed)
              tf.random.set_seed(gseed)
            reseed()
            a = np.asarray(obj(shape, dtype=var.dtype, **kw))
            reseed()
            a2 = np.asarray(obj(shape, dtype=var.dtype, **kw))
            if a.shape != a2.shape or not np.array_equal(a, a2):
              continue  # not reproducible even for the same object
            reseed()
            b = np.asarray(obj2(shape, dtype=var.dtype, **kw))
          elif kind == "layer":
            # Shorthand arguments must be rebuilt into equivalent objects.
            a_parts, b_parts = [], []
            for attr in ("kernel_initializer", "bias_initializer",
                         "scale_initializer"):
              ia, ib = getattr(obj, attr, None), getattr(obj2, attr, None)
              if ia is None or isinstance(ia, str) or not hasattr(
                  ia, "get_config"):
                continue
              ca = json_norm({"class": type(ia).__name__,
                              "config": ia.get_config()})
              cb = (json_norm({"class": type(ib).__name__,
                               "config": ib.get_config()})
                    if ib is not None and hasattr(ib, "get_config") and
                    not isinstance(ib, str) else None)
              if ca != cb:
                a_parts.append(np.float64(1.0))
                b_parts.append(np.float64(-1.0))
            for attr, vname in (("kernel_regularizer", "kernel"),
                                ("bias_regularizer", "bias")):
              ra, rb = getattr(obj, attr, None), getattr(obj2, attr, None)
              var = getattr(obj, vname, None)
              if not isinstance(ra, (list, tuple)) or var is None:
                continue
              if not isinstance(rb, (list, tuple)) or len(ra) != len(rb):
                a_parts.append(np.float64(len(ra)))
                b_parts.append(np.float64(-1.0))
                continue
              for x, y in zip(ra, rb):
                if callable(x) and callable(y):
                  a_parts.append(np.asarray(x(tf.identity(var)), np.float64))
                  b_parts.append(np.asarray(y(tf.identity(var)), np.float64))
            if not a_parts:
              continue
            a = np.asarray([float(np.sum(v)) for v in a_parts])
            b = np.asarray([float(np.sum(v)) for v in b_parts])
          else:
            continue
      except engine.SutError as e:
        out.append(engine.Violation(
            "exception:%s@object_apply" % e.exc_type,
            {"object": label, "class": cls.__name__, "text": e.exc_text}))
        continue
      if a.shape != b.shape or not np.allclose(a, b, rtol=1e-6, atol=1e-7,
                                               equal_nan=True):
        out.append(engine.Violation("object_behaviour_differs", {
            "object": label, "class": cls.__name__}))
    return out

  # ---------------------------------------------------- C11 restore oracle
  def _compare_restore(self, img, hard, ctx, ev):
    out = []
    ctx.count("restore_compared")
    model = self.model
    with ctx.sut("get_config"):
      cfg = json_norm(model.get_config())
    diffs = config_diff(img["config"], cfg)
    if diffs:
      out.append(engine.Violation("config_drift", {"diffs": diffs,
                                                   "fmt": img["fmt"]}))
    with ctx.sut("get_config"):
      lcfg = self._layer_configs(model)
    ldiffs = config_diff(img["layer_configs"], lcfg)
    if ldiffs:
      out.append(engine.Violation("layer_config_drift", {
          "diffs": ldiffs, "fmt": img["fmt"],
          "rebuild": bool(img.get("last_restore_rebuild"))}))
    adiffs = config_diff(img["layer_attrs"], self._layer_attrs(model))
    if adiffs:
      out.append(engine.Violation("layer_attr_drift", {
          "diffs": adiffs, "fmt": img["fmt"]}))
    meta = self._var_meta(model)
    if meta != img["var_meta"]:
      bad = [(a, b) for a, b in zip(img["var_meta"], meta) if a != b][:4]
      out.append(engine.Violation(
          "variables_differ", {"n_original": len(img["var_meta"]),
                               "n_rebuilt": len(meta), "first": bad,
                               "fmt": img["fmt"]}))
      return out
    with ctx.sut("call"):
      y = self._forward(img["probe_x"])
    ctx.log("restore_probe", y.astype(np.float32))
    both_nan = np.isnan(y) & np.isnan(img["probe_y"])
    err = np.where(both_nan, 0.0, np.abs(y - img["probe_y"]))
    err = np.where(np.isnan(err), np.inf, err)
    lim = 1e-6 * (1.0 + np.abs(np.nan_to_num(img["probe_y"])))
    if np.any(err > lim):
      r = int(np.argmax((err - lim).max(axis=1)))
      out.append(engine.Violation(
          "outputs_differ", {
              "fmt": img["fmt"], "x": [c[r, 0] for c in img["probe_x"]],
              "original": img["probe_y"][r], "rebuilt": y[r]},
          margin=float(np.max(err)), tol=float(np.max(lim))))
    rl = self._reg_loss(model)
    if (img.get("reg_loss") is not None and rl is not None and
        abs(rl - img["reg_loss"]) > 1e-5 * (1.0 + abs(img["reg_loss"]))):
      out.append(engine.Violation(
          "regularization_differs", {"fmt": img["fmt"],
                                     "original": img["reg_loss"],
                                     "rebuilt": rl}))
    ok, why = self._assert_status(model)
    if img["assert_ok"] and not ok:
      out.append(engine.Violation("constraints_lost", {"fmt": img["fmt"],
                                                       "why": why}))
    if hard is not None:
      ctx.reach("hard_restart_compared")
      if not hard.get("ok") and hard.get("harness"):
        raise engine.HarnessError("restore worker failed outside the "
                                  "library: %s" % hard.get("exc_text"))
      if not hard.get("ok"):
        out.append(engine.Violation(
            "exception:%s@hard_restore" % hard.get("exc_type", "Unknown"),
            {"fmt": img["fmt"], "text": hard.get("exc_text"),
             "tb": hard.get("tb")}))
      else:
        hl = config_diff(img["layer_configs"], hard.get("layer_configs"))
        if hl:
          out.append(engine.Violation("layer_config_drift", {
              "diffs": hl, "fmt": img["fmt"], "hard": True}))
        hd = config_diff(img["config"], hard["config"])
        if hd:
          out.append(engine.Violation("config_drift", {"diffs": hd,
                                                       "fmt": img["fmt"],
                                                       "hard": True}))
        if hard["var_meta"] != img["var_meta"]:
          out.append(engine.Violation("variables_differ", {
              "hard": True, "fmt": img["fmt"],
              "n_original": len(img["var_meta"]),
              "n_rebuilt": len(hard["var_meta"])}))
        else:
          hy = np.asarray(hard["y"], dtype=np.float64).reshape(
              img["probe_y"].shape)
          ctx.log("hard_probe", hy.astype(np.float32))
          hnan = np.isnan(hy) & np.isnan(img["probe_y"])
          herr = np.where(hnan, 0.0, np.abs(hy - img["probe_y"]))
          herr = np.where(np.isnan(herr), np.inf, herr)
          if np.any(herr > lim):
            out.append(engine.Violation(
                "outputs_differ", {"hard": True, "fmt": img["fmt"]},
                margin=float(np.max(herr)), tol=float(np.max(lim))))
          if img["assert_ok"] and not hard["assert_ok"]:
            out.append(engine.Violation("constraints_lost", {
                "hard": True, "fmt": img["fmt"], "why": hard.get(
                    "assert_why")}))
    return out

  def classify_exception(self, vs, ev, err, ctx):
    """Attaches structural conditions to exceptions raised by the SUT."""
    try:
      conds = self._structural_conditions(ctx) if self.model is not None else []
    except Exception:  # pylint: disable=broad-except
      conds = []
    for v in vs:
      v.conditions = list(conds)
    return vs

  def nontrivial(self, ctx):
    if self.prop == "C11":
      return ctx.stats.get("restore_compared", 0) >= 1 and ctx.steps >= 1
    return ctx.steps >= 3 and any(k.startswith("fault:") for k in ctx.stats)

  # --------------------------------------------------------- minimisation
  @classmethod
  def simplifications(cls, spec, events):
    out = []
    for i, ev in enumerate(events):
      simpler = []
      if ev["kind"] == "step":
        if ev["family"] != "new":
          simpler.append(dict(ev, family="new"))
        if ev["opt"] != "sgd":
          simpler.append(dict(ev, opt="sgd"))
        if ev["order"] != "canonical":
          simpler.append(dict(ev, order="canonical"))
        if ev["p_drop"]:
          simpler.append(dict(ev, p_drop=0.0))
        if ev["grad"] != "blast":
          simpler.append(dict(ev, grad="blast"))
      elif ev["kind"] == "crash":
        if ev["mode"] != "soft":
          simpler.append(dict(ev, mode="soft"))
        if ev.get("skew"):
          simpler.append(dict(ev, skew=False))
        if ev.get("lose_newest"):
          simpler.append(dict(ev, lose_newest=False))
        if ev.get("rebuild"):
          simpler.append(dict(ev, rebuild=False))
      elif ev["kind"] == "checkpoint":
        if ev["fmt"] != "memory":
          simpler.append(dict(ev, fmt="memory"))
      for cand in simpler:
        out.append((spec, events[:i] + [cand] + events[i + 1:]))
    b = builders.BUILDERS[spec["builder"]]
    for sp in b.simplifications(spec):
      out.append((sp, events))
    return out
