"""Batch driver: seeded search over schedules/fault sequences for one property.

Exit 0: property held on everything explored (known findings are printed as
`KNOWN-FINDING:` lines).  Exit 1: a violation not listed in
known_findings.json was found; `VIOLATION property=<id> replay=<path>` is
printed after minimisation and replay verification.  Exit 2: harness error
(worker death, timeout, nondeterminism, reach gate) - never a pass.
"""
import argparse
import collections
import concurrent.futures as cf
import faulthandler
import json
import multiprocessing as mp
import os
import subprocess
import sys
import time
import traceback

from . import findings as findings_lib
from . import rng as rng_lib

ROOT = os.path.dirname(os.path.dirname(os.path.abspath(__file__)))
EVIDENCE_DIR = os.path.join(ROOT, "evidence")
REPLAY_DIR = os.environ.get("VERIF_REPLAY_DIR") or os.path.join(ROOT, "replays")

# runs, wall budget (s) for the main batch, determinism sample size.
TIERS = {
    "C07": {"quick": (5000, 200, 24), "thorough": (80000, 1500, 240)},
    "C03": {"quick": (2000, 300, 16), "thorough": (14000, 1800, 200)},
    "C11": {"quick": (1000, 300, 16), "thorough": (9000, 1800, 200)},
}
CHUNK = {"C07": 20, "C03": 4, "C11": 4}

COMPONENTS = {
    "real": [
        "tensorflow_lattice (from the /repo working tree)",
        "tf_keras optimizers (new-style and legacy), Layer/Model, saving",
        "TensorFlow eager kernels (1 intra-op / 1 inter-op thread)",
        "h5py / zip / SavedModel writers on the local filesystem",
        "fresh-interpreter restart (hard crash)",
    ],
    "emulated": [
        "process crash within one interpreter (soft crash: every object "
        "dropped, Keras session cleared, global RNGs and uid counters skewed)",
        "atomic checkpoint files (a torn checkpoint is modelled as lost)",
    ],
    "synthetic": ["training data, losses and gradients (hostile by design)"],
    "absent": [
        "EMA weight averaging", "TF1 sessions", "distribution strategies",
        "XLA", "GPU/TPU"
    ],
}


def _worker_init(repo):
  os.environ["VERIF_REPO"] = repo
  faulthandler.enable()
  from . import env
  # TF's C++ start-up banner goes to fd 2 before logging is configurable.
  saved = os.dup(2)
  devnull = os.open(os.devnull, os.O_WRONLY)
  os.dup2(devnull, 2)
  try:
    env.setup()
  finally:
    os.dup2(saved, 2)
    os.close(saved)
    os.close(devnull)


def _task_runs(args):
  prop, verif_seed, indices, tier, sample_idx = args
  from . import engine
  out = []
  for i in indices:
    rs = rng_lib.run_seed(verif_seed, prop, i)
    faulthandler.dump_traceback_later(900, exit=True)
    try:
      r = engine.run_one(prop, rs, tier=tier, want_samples=(i in sample_idx))
      r["index"] = i
      if r["violation"] is None and i not in sample_idx:
        r.pop("spec", None)
    except Exception:  # pylint: disable=broad-except
      r = {"index": i, "run_seed": rs, "error": traceback.format_exc()}
    finally:
      faulthandler.cancel_dump_traceback_later()
    out.append(r)
  return out


def _task_minimise(args):
  prop, verif_seed, index, tier, budget = args
  from . import engine
  rs = rng_lib.run_seed(verif_seed, prop, index)
  world, spec, events = engine.generate(prop, rs, tier)
  first = engine.run_one(prop, rs, world=world, spec=spec, events=events)
  if first["violation"] is None:
    return {"index": index, "error": "violation did not reproduce in "
            "minimiser process (nondeterminism)"}
  cls = first["violation"]["class"]
  spec2, events2, best = engine.minimise(prop, rs, world, spec, events, cls,
                                         budget_s=budget)
  if best is None:
    return {"index": index, "error": "minimiser lost the violation"}
  os.makedirs(REPLAY_DIR, exist_ok=True)
  path = os.path.join(REPLAY_DIR, "%s-%d-%d.json" % (prop, verif_seed, index))
  engine.write_replay(path, verif_seed, index, best, spec2, events2,
                      note="minimised from %d events" % len(events))
  # Replaying the file must reproduce the violation exactly.
  doc, res = engine.replay(path)
  ok = (res["violation"] is not None and
        res["violation"]["class"] == doc["violation"]["class"] and
        res["violation"]["event"] == doc["violation"]["event"] and
        res["digest"] == doc["digest"])
  return {"index": index, "path": path, "class": cls, "replay_ok": ok,
          "events_before": len(events), "events_after": len(events2),
          "violation": best["violation"]}


def _digests_subprocess(prop, verif_seed, indices, tier, hashseed, repo):
  env = dict(os.environ)
  env["PYTHONHASHSEED"] = str(hashseed)
  env["VERIF_REPO"] = repo
  cmd = [sys.executable, "-m", "simlat", "digests", prop, "--seed",
         str(verif_seed), "--tier", tier, "--indices",
         ",".join(str(i) for i in indices)]
  p = subprocess.run(cmd, cwd=ROOT, env=env, stdout=subprocess.PIPE,
                     stderr=subprocess.PIPE, timeout=1500)
  if p.returncode != 0:
    raise RuntimeError("digest subprocess failed: %s" %
                       p.stderr.decode()[-2000:])
  line = [l for l in p.stdout.decode().splitlines() if l.startswith("{")][-1]
  return {int(k): v for k, v in json.loads(line).items()}


def main(argv=None):
  ap = argparse.ArgumentParser(prog="simlat check")
  ap.add_argument("prop")
  ap.add_argument("--tier", default=os.environ.get("VERIF_TIER", "quick"))
  ap.add_argument("--runs", type=int, default=None)
  ap.add_argument("--budget", type=float, default=None)
  ap.add_argument("--workers", type=int,
                  default=int(os.environ.get("VERIF_WORKERS", "16")))
  ap.add_argument("--seed", type=int,
                  default=int(os.environ.get("VERIF_SEED", "0")))
  ap.add_argument("--no-evidence", action="store_true")
  ap.add_argument("--no-determinism", action="store_true")
  args = ap.parse_args(argv)
  prop, tier = args.prop, args.tier
  if tier not in ("quick", "thorough"):
    tier = "quick"
  runs, budget, n_det = TIERS[prop][tier]
  if args.runs is not None:
    runs = args.runs
  if args.budget is not None:
    budget = args.budget
  repo = os.path.abspath(os.environ.get("VERIF_REPO", "/repo"))
  os.environ["PYTHONHASHSEED"] = "0"
  t0 = time.time()
  print("simlat check property=%s tier=%s VERIF_SEED=%d runs<=%d budget=%ds "
        "workers=%d repo=%s" % (prop, tier, args.seed, runs, budget,
                                args.workers, repo), flush=True)
  known_findings = findings_lib.load()
  chunk = CHUNK.get(prop, 8)
  sample_idx = set(range(0, 64))
  indices = list(range(runs))
  chunks = [indices[i:i + chunk] for i in range(0, len(indices), chunk)]
  results = []
  harness_errors = []
  ctx = mp.get_context("spawn")
  deadline = t0 + budget
  det_future = None
  det_indices = indices[:n_det]
  with cf.ProcessPoolExecutor(max_workers=args.workers, mp_context=ctx,
                              initializer=_worker_init, initargs=(repo,),
                              max_tasks_per_child=40) as ex:
    pending = {}
    it = iter(chunks)
    exhausted = False

    def submit_more():
      nonlocal exhausted
      while len(pending) < args.workers * 2 and not exhausted:
        if time.time() > deadline:
          exhausted = True
          break
        try:
          c = next(it)
        except StopIteration:
          exhausted = True
          break
        f = ex.submit(_task_runs, (prop, args.seed, c, tier, sample_idx))
        pending[f] = c

    try:
      submit_more()
      # The determinism sample runs concurrently, in fresh interpreters with a
      # different PYTHONHASHSEED.
      if not args.no_determinism and det_indices:
        tp = cf.ThreadPoolExecutor(max_workers=2)
        half = len(det_indices) // 2
        det_future = [
            tp.submit(_digests_subprocess, prop, args.seed,
                      det_indices[:half], tier, 4242, repo),
            tp.submit(_digests_subprocess, prop, args.seed,
                      det_indices[half:], tier, 977, repo),
        ]
      while pending:
        done, _ = cf.wait(list(pending), timeout=1200,
                          return_when=cf.FIRST_COMPLETED)
        if not done:
          harness_errors.append("no worker progress for 1200 s")
          break
        for f in done:
          c = pending.pop(f)
          try:
            results.extend(f.result())
          except Exception as e:  # pylint: disable=broad-except
            harness_errors.append("worker failed on runs %s: %r" % (c, e))
        submit_more()
    except cf.process.BrokenProcessPool as e:
      harness_errors.append("process pool broke: %r" % e)

    results.sort(key=lambda r: r["index"])
    # A run that died inside the simulator itself is void (it decides nothing
    # either way); isolated ones are recorded in the evidence, more than
    # max(3, 1 %) of the batch make the whole check a harness error.
    void_runs = [r for r in results if "error" in r]
    run_errors = ["run %d: %s" % (r["index"], r["error"][-1500:])
                  for r in void_runs]
    if len(void_runs) > max(3, 0.01 * len(results)):
      harness_errors.extend(run_errors[:5])
    good = [r for r in results if "error" not in r]
    batch_wall = time.time() - t0

    # ---- determinism gate -------------------------------------------------
    det = {"checked": 0, "mismatches": []}
    if det_future is not None:
      other = {}
      for f in det_future:
        try:
          other.update(f.result())
        except Exception as e:  # pylint: disable=broad-except
          harness_errors.append("determinism subprocess: %r" % e)
      mine = {r["index"]: r["digest"] for r in good}
      for i, d in sorted(other.items()):
        if i in mine:
          det["checked"] += 1
          if mine[i] != d:
            det["mismatches"].append(i)
      if det["mismatches"]:
        harness_errors.append(
            "NONDETERMINISM: digests differ across interpreters for runs %s" %
            det["mismatches"][:10])

    # ---- violations: minimise, write replay, verify replay ---------------
    viol = [r for r in good if r["violation"] is not None]
    by_class = collections.OrderedDict()
    for r in viol:
      by_class.setdefault(r["violation"]["class"], []).append(r)
    reported = []
    mins = []
    for cls, rs in list(by_class.items())[:4]:
      mins.append(ex.submit(_task_minimise,
                            (prop, args.seed, rs[0]["index"], tier,
                             90 if tier == "quick" else 240)))
    for f in mins:
      try:
        m = f.result(timeout=900)
      except Exception as e:  # pylint: disable=broad-except
        harness_errors.append("minimiser failed: %r" % e)
        continue
      if "error" in m:
        harness_errors.append("minimiser: run %d: %s" % (m["index"],
                                                        m["error"]))
        continue
      if not m["replay_ok"]:
        harness_errors.append("replay of %s did not reproduce exactly" %
                              m["path"])
      reported.append(m)

  # ---- aggregate -----------------------------------------------------------
  stats = collections.Counter()
  sigs = set()
  nontrivial_sigs = set()
  abs_states = set()
  known_hits = collections.OrderedDict()
  worlds = collections.Counter()
  steps = events = restarts = 0
  for r in good:
    stats.update(r["stats"])
    sigs.add(r["sig"])
    if r["nontrivial"]:
      nontrivial_sigs.add(r["sig"])
    abs_states.update(r["abs_states"])
    worlds[r["world"]] += 1
    steps += r["steps"]
    events += r["executed"]
    restarts += r.get("restarts", 0)
    for k in r["known"]:
      known_hits.setdefault(k["finding"], []).append((r["index"], k))
  for fid, hits in known_hits.items():
    f = [x for x in known_findings if x["id"] == fid][0]
    print("KNOWN-FINDING: property=%s %s: %s (hit in %d runs, first run index "
          "%d)" % (prop, fid, f["what"], len(hits), hits[0][0]), flush=True)
  for m in reported:
    print("VIOLATION property=%s replay=%s" % (prop, m["path"]), flush=True)
    print("  class=%s event=%s margin=%s tol=%s (minimised %d -> %d events, "
          "%d runs of this class)" %
          (m["class"], m["violation"]["event"], m["violation"]["margin"],
           m["violation"]["tol"], m["events_before"], m["events_after"],
           len(by_class[m["class"]])), flush=True)
  if viol and not reported:
    # Could not minimise - still report, pointing at the seed.
    os.makedirs(REPLAY_DIR, exist_ok=True)
    for cls, rs in list(by_class.items())[:4]:
      r = rs[0]
      path = os.path.join(REPLAY_DIR, "%s-%d-%d.raw.json" %
                          (prop, args.seed, r["index"]))
      with open(path, "w") as f:
        json.dump({"property": prop, "verif_seed": args.seed,
                   "run_index": r["index"], "run_seed": r["run_seed"],
                   "world": r["world"], "spec": r.get("spec"),
                   "events": r.get("events"), "violation": r["violation"],
                   "digest": r["digest"], "simlat_version": 1}, f, indent=1)
      print("VIOLATION property=%s replay=%s" % (prop, path), flush=True)

  # Rejected configurations void a run; many of them mean the generator (or
  # the library's validation) has drifted - never a silent pass.
  rejected = [r for r in good if r.get("rejected")]
  if len(rejected) > max(3, 0.02 * len(good)):
    harness_errors.append(
        "%d of %d generated configurations were rejected by the library at "
        "construction, e.g. run %d: %s" % (len(rejected), len(good),
                                           rejected[0]["index"],
                                           rejected[0]["rejected"]))

  # Reach gate (thorough tier): a probe stuck at zero means the workload or
  # fault mix does not reach what the oracle needs.
  reach_missing = []
  if tier == "thorough" and len(good) >= 1000:
    from . import reach_gates
    for name in reach_gates.REQUIRED.get(prop, []):
      if stats.get(name, 0) == 0:
        reach_missing.append(name)
    if reach_missing:
      harness_errors.append("reach probes stuck at zero: %s" % reach_missing)

  wall = time.time() - t0
  n_eval = len(good)
  samples = []
  for r in good:
    if r.get("events") is not None and r["nontrivial"] and len(samples) < 3:
      samples.append({"run_index": r["index"], "run_seed": r["run_seed"],
                      "world": r["world"], "spec": r.get("spec"),
                      "events": r["events"], "digest": r["digest"],
                      "steps": r["steps"]})
  if not samples:
    for r in good:
      if r.get("events") is not None and len(samples) < 3:
        samples.append({"run_index": r["index"], "run_seed": r["run_seed"],
                        "world": r["world"], "spec": r.get("spec"),
                        "events": r["events"], "digest": r["digest"]})
  evidence = {
      "property_id": prop,
      "tier": tier,
      "seed": args.seed,
      "level": "exploration",
      "wall_s": round(wall, 2),
      "violations": len(viol),
      "coverage": {
          "evaluations": n_eval,
          "distinct_nontrivial": len(nontrivial_sigs),
          "rule": RULES[prop],
          "samples": samples,
          "runs_requested": runs,
          "simulated_events": events,
          "optimizer_steps": steps,
          "restarts": restarts,
          "simulated_time": "%d events (logical clock ticks once per event; "
                            "nothing in the system reads wall-clock time)" %
                            events,
          "runs_per_hour": int(n_eval / max(batch_wall, 1e-9) * 3600),
          "seeds_per_hour": int(n_eval / max(batch_wall, 1e-9) * 3600),
          "distinct_schedule_signatures": len(sigs),
          "distinct_abstract_states": len(abs_states),
          "worlds": dict(worlds),
          "faults_fired": {k[6:]: v for k, v in sorted(stats.items())
                           if k.startswith("fault:")},
          "reach_probes": {k[6:]: v for k, v in sorted(stats.items())
                           if k.startswith("reach:")},
          "other_counters": {k: v for k, v in sorted(stats.items())
                             if not k.startswith(("fault:", "reach:"))},
          "known_findings_hit": {k: len(v) for k, v in known_hits.items()},
          "rejected_configurations": len([r for r in good if r.get("rejected")]),
          "violation_classes": {k: len(v) for k, v in by_class.items()},
          "replays": [m["path"] for m in reported],
          "determinism": {
              "runs_re_executed_in_fresh_interpreters": det["checked"],
              "pythonhashseed_values": [0, 4242, 977],
              "digest_mismatches": len(det["mismatches"]),
          },
          "components": COMPONENTS,
          "harness_errors": harness_errors[:20],
          "void_runs": len(void_runs),
          "void_run_errors": run_errors[:5],
      },
      "assumptions": ASSUMPTIONS[prop],
  }
  if not args.no_evidence:
    os.makedirs(EVIDENCE_DIR, exist_ok=True)
    if n_eval >= 1 and len(nontrivial_sigs) >= 2:
      with open(os.path.join(EVIDENCE_DIR, prop + ".json"), "w") as f:
        json.dump(evidence, f, indent=1, sort_keys=True)
    else:
      harness_errors.append("too few runs completed to write evidence")
  print("runs=%d events=%d steps=%d restarts=%d distinct_nontrivial=%d "
        "abs_states=%d violations=%d known_runs=%d wall=%.1fs (%.0f runs/h)" %
        (n_eval, events, steps, restarts, len(nontrivial_sigs),
         len(abs_states), len(viol), sum(len(v) for v in known_hits.values()),
         wall, n_eval / max(batch_wall, 1e-9) * 3600), flush=True)
  print("faults: %s" % evidence["coverage"]["faults_fired"], flush=True)
  print("determinism: %s" % evidence["coverage"]["determinism"], flush=True)
  for e in run_errors[:3]:
    print("VOID-RUN: %s" % e.replace("\n", " | ")[-400:], flush=True)
  if harness_errors:
    for e in harness_errors[:10]:
      print("HARNESS-ERROR: %s" % e, flush=True)
  if viol:
    return 1
  if harness_errors:
    return 2
  return 0


RULES = {
    "C07": ("each evaluation is one seeded run: a generated "
            "KroneckerFactoredLattice configuration plus a generated history "
            "of optimizer steps (family, variable order, subset, gradient "
            "kind), manual constraint applications, finalize, raw writes and "
            "snapshot/restore. Two runs are distinct if their schedule "
            "signatures differ (sequence of per-step (family, variables "
            "updated in order, constraint calls observed in order, gradient "
            "kinds) and of the other operations); a run is non-trivial if it "
            "made >= 3 optimizer steps, fired >= 1 fault and evaluated the "
            "invariant with the obligation active >= 2 times."),
    "C03": ("each evaluation is one seeded run: a generated premade model "
            "config or layer stack plus a generated history of hostile "
            "optimizer steps, order/subset perturbations, checkpoints, "
            "crashes and restores. Distinct = different schedule signature; "
            "non-trivial = >= 3 optimizer steps and >= 1 fault fired."),
    "C11": ("each evaluation is one seeded run: a generated layer / model "
            "world plus a history of training steps, checkpoints in drawn "
            "formats, soft/hard crashes, global-state skew and restores. "
            "Distinct = different schedule signature; non-trivial = >= 1 "
            "restore compared against the durable image after >= 1 training "
            "step."),
}

ASSUMPTIONS = {
    "C07": [
        "eager execution, float32, tf_keras 2.21 optimizers, one CPU thread",
        "output comparisons carry tolerance 1e-5*(1+|bias|+mean|scale|*prod "
        "max|w|); smaller violations are invisible",
        "finitely many probe points per check (redrawn at every event)",
        "obligation is active when each variable's constraint has been applied "
        "since that variable's last raw write (or after finalize_constraints)",
    ],
    "C03": [
        "eager execution, float32, tf_keras 2.21 optimizers, one CPU thread",
        "tolerance 1e-5*(1+max|output|+max|weight|)",
        "finitely many probe points per check",
        "EMA weight averaging and non-finite gradients are out of scope",
    ],
    "C11": [
        "checkpoint files are atomic (complete or absent)",
        "equalities across a restart use 1e-6*(1+|y|)",
        "only tfl.premade.get_custom_objects() is given to loaders",
    ],
}

if __name__ == "__main__":
  sys.exit(main())
