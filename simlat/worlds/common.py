"""Shared actors: real tf_keras optimizers, constraint observers, helpers."""
import numpy as np

from .. import env

NEW_OPTS = ("sgd", "sgdm", "adam", "rmsprop", "adagrad", "adamax", "nadam",
            "ftrl", "adamw", "lion", "adadelta")
LEGACY_OPTS = ("sgd", "sgdm", "adam", "rmsprop", "adagrad", "adamax", "nadam",
               "ftrl", "adadelta")


def make_optimizer(family, name, lr):
  """Returns a real tf_keras optimizer of the requested family."""
  _, keras, _ = env.mods()
  mod = keras.optimizers if family == "new" else keras.optimizers.legacy
  if name == "sgd":
    return mod.SGD(learning_rate=lr)
  if name == "sgdm":
    return mod.SGD(learning_rate=lr, momentum=0.9, nesterov=True)
  if name == "adam":
    return mod.Adam(learning_rate=lr)
  if name == "rmsprop":
    return mod.RMSprop(learning_rate=lr)
  if name == "adagrad":
    return mod.Adagrad(learning_rate=lr)
  if name == "adamax":
    return mod.Adamax(learning_rate=lr)
  if name == "nadam":
    return mod.Nadam(learning_rate=lr)
  if name == "ftrl":
    return mod.Ftrl(learning_rate=lr)
  if name == "adadelta":
    return mod.Adadelta(learning_rate=lr)
  if name == "adamw" and family == "new":
    return mod.AdamW(learning_rate=lr, weight_decay=0.01)
  if name == "lion" and family == "new":
    return mod.Lion(learning_rate=lr)
  raise ValueError("unknown optimizer %s/%s" % (family, name))


class OptimizerPool(object):
  """Optimizers persist across steps (slots!) and are keyed by family/name."""

  def __init__(self, all_vars_fn):
    self._opts = {}
    self._all_vars_fn = all_vars_fn

  def get(self, family, name, lr):
    key = (family, name)
    opt = self._opts.get(key)
    if opt is None:
      opt = make_optimizer(family, name, lr)
      if family == "new":
        # Keras' Model.fit builds the optimizer with every trainable variable.
        opt.build(list(self._all_vars_fn()))
      self._opts[key] = opt
    opt.learning_rate = lr
    return opt

  def reset(self):
    """Drops every optimizer (fresh slots) - e.g. after a restart."""
    self._opts = {}


class ConstraintProxy(object):
  """Observes each application of a variable's constraint (the seam is the
  `constraint` attribute of the Keras variable; nothing in /repo changes)."""

  def __init__(self, real, name, on_call):
    self.real = real
    self.name = name
    self.on_call = on_call

  def __call__(self, w):
    out = self.real(w)
    tf = env.mods()[0]
    if tf.executing_eagerly():
      # Inside a traced train step the observer cannot (and need not) look at
      # values; the world re-synchronises its reference state after fit().
      try:
        self.on_call(self.name, self.real, w, out)
      except Exception as e:  # pylint: disable=broad-except
        from .. import engine
        raise engine.HarnessError("constraint observer failed: %r" % (e,))
    return out

  def get_config(self):
    return self.real.get_config()


def install_proxy(var, name, on_call):
  real = var.constraint
  if real is None:
    return None
  if isinstance(real, ConstraintProxy):
    real = real.real
  proxy = ConstraintProxy(real, name, on_call)
  var._constraint = proxy  # pylint: disable=protected-access
  if var.constraint is not proxy:
    raise RuntimeError("constraint seam not effective for %s" % name)
  return proxy


def remove_proxy(var):
  c = var.constraint
  if isinstance(c, ConstraintProxy):
    var._constraint = c.real  # pylint: disable=protected-access


def np_weights(variables):
  return [np.array(v.numpy()) for v in variables]


def all_finite(arrs):
  return all(np.all(np.isfinite(a)) for a in arrs)


def max_abs(arrs):
  m = 0.0
  for a in arrs:
    if a.size:
      m = max(m, float(np.max(np.abs(a))))
  return m


class KflRef(object):
  """Reference state machine for one KroneckerFactoredLattice layer.

  The kernel is projected "increasing w.r.t. sign(scale)". `expected` is the
  sign pattern the last kernel projection (or the initializer) saw. A strict
  sign change of a scale entry relative to `expected` is *excused* when it was
  caused by a raw write to scale (optimizer update, assignment, weight
  restore) - that is the recorded known finding - and *not excused* when the
  scale constraint itself flipped the sign, which the library promises never
  to do.
  """

  def __init__(self, layer, fresh=True):
    self.layer = layer
    self.expected = self.sign_now() if fresh else None
    self.excused = None
    self.unexcused = None
    self._reset_masks()

  def sign_now(self):
    return np.sign(self.layer.scale.numpy()).astype(np.int8)

  def _reset_masks(self):
    shape = tuple(int(d) for d in self.layer.scale.shape)
    self.excused = np.zeros(shape, dtype=bool)
    self.unexcused = np.zeros(shape, dtype=bool)

  def on_kernel_projection(self, sign=None):
    self.expected = self.sign_now() if sign is None else np.asarray(
        sign, dtype=np.int8)
    self._reset_masks()

  def on_scale_constraint(self, pre, post):
    """pre/post: scale values before and after its constraint."""
    pre = np.sign(np.asarray(pre)).astype(np.int8)
    post = np.sign(np.asarray(post)).astype(np.int8)
    if self.expected is None:
      return
    # Changes that were already there before the constraint ran come from a
    # raw write.
    self.excused |= (pre * self.expected < 0) & ~self.unexcused
    flipped_here = pre * post < 0
    self.unexcused |= flipped_here
    self.excused &= ~flipped_here

  def end_of_event(self):
    """Whatever differs now and was not pinned on a constraint is a raw write."""
    if self.expected is None:
      return
    now = self.sign_now()
    diff = now * self.expected < 0
    self.excused |= diff & ~self.unexcused
    self.excused &= diff
    self.unexcused &= diff

  def stale_units(self):
    """Units whose sign changes are all explained by raw writes to scale."""
    if self.expected is None:
      return np.zeros(int(self.layer.scale.shape[0]), dtype=bool)
    now = self.sign_now()
    diff = now * self.expected < 0
    return np.any(diff, axis=1) & ~np.any(diff & self.unexcused, axis=1)

  def state(self):
    return {
        "expected": None if self.expected is None else self.expected.tolist(),
        "excused": self.excused.tolist(),
        "unexcused": self.unexcused.tolist(),
    }

  def restore(self, st):
    if not st:
      return
    self.expected = (None if st.get("expected") is None else np.asarray(
        st["expected"], dtype=np.int8))
    shape = tuple(int(d) for d in self.layer.scale.shape)
    for key in ("excused", "unexcused"):
      arr = np.asarray(st.get(key, np.zeros(shape)), dtype=bool)
      setattr(self, key, arr if arr.shape == shape else np.zeros(shape, bool))
