"""Named, independent random sub-streams derived from one integer.

Every choice in a run is drawn from `stream(run_seed, label, k)`.  Operation k
owns its own stream, so deleting operation j while minimising does not shift
the randomness of the others.  Nothing here reads a clock or global RNG state.
"""
import hashlib

import numpy as np


def derive(*parts):
  """Returns a 63-bit integer derived from the given parts (ints / strings)."""
  h = hashlib.blake2b(digest_size=8)
  for p in parts:
    h.update(repr(p).encode("utf-8"))
    h.update(b"\x00")
  return int.from_bytes(h.digest(), "big") >> 1


def run_seed(verif_seed, prop, run_index):
  return derive("run", int(verif_seed), str(prop), int(run_index))


class Stream(object):
  """A thin convenience wrapper around numpy's PCG64 generator."""

  def __init__(self, *parts):
    self.seed = derive(*parts)
    self.g = np.random.Generator(np.random.PCG64(self.seed))

  def sub(self, *parts):
    return Stream(self.seed, *parts)

  def integer(self, lo, hi):
    """Uniform integer in [lo, hi] inclusive."""
    return int(self.g.integers(lo, hi + 1))

  def choice(self, seq):
    seq = list(seq)
    return seq[int(self.g.integers(0, len(seq)))]

  def weighted(self, pairs):
    """pairs: list of (item, weight)."""
    items = [p[0] for p in pairs]
    w = np.asarray([float(p[1]) for p in pairs], dtype=np.float64)
    if w.sum() <= 0:
      return items[0]
    idx = int(self.g.choice(len(items), p=w / w.sum()))
    return items[idx]

  def chance(self, p):
    return bool(self.g.random() < p)

  def uniform(self, lo=0.0, hi=1.0):
    return float(self.g.uniform(lo, hi))

  def log10_uniform(self, lo_exp, hi_exp):
    return float(10.0**self.g.uniform(lo_exp, hi_exp))

  def normal(self, size=None, scale=1.0):
    return self.g.normal(0.0, scale, size=size)

  def permutation(self, n):
    return [int(i) for i in self.g.permutation(n)]

  def subset_mask(self, n, p):
    return [bool(self.g.random() < p) for _ in range(n)]

  def seed31(self):
    return int(self.g.integers(0, 2**31 - 1))
