#!/usr/bin/env python3
"""Confirms a seeded change: demo passes on HEAD, fails with the patch, and the
pinned baseline still passes with the patch. Works in a scratch worktree under
/tmp which is removed afterwards. Writes <dir>/confirm.json."""
import json
import os
import shutil
import subprocess
import sys
import tempfile
import xml.etree.ElementTree as ET


def run(cmd, **kw):
  return subprocess.run(cmd, stdout=subprocess.PIPE, stderr=subprocess.STDOUT,
                        text=True, **kw)


def main():
  d = os.path.abspath(sys.argv[1])
  skip_baseline = "--no-baseline" in sys.argv
  patch = os.path.join(d, "patch.diff")
  demo = os.path.join(d, "demo.py")
  wt = tempfile.mkdtemp(prefix="confirm-")
  os.rmdir(wt)
  res = {"dir": d}
  env = dict(os.environ, TF_CPP_MIN_LOG_LEVEL="3")
  try:
    run(["git", "-C", "/repo", "worktree", "add", "-q", "--detach", wt, "HEAD"])
    r = run(["timeout", "600", "/venv/bin/python", demo, wt], env=env, cwd="/tmp")
    res["demo_clean_exit"] = r.returncode
    res["demo_clean_tail"] = r.stdout[-400:]
    r = run(["git", "-C", wt, "apply", patch])
    res["apply_exit"] = r.returncode
    r = run(["timeout", "600", "/venv/bin/python", demo, wt], env=env, cwd="/tmp")
    res["demo_patched_exit"] = r.returncode
    res["demo_patched_tail"] = r.stdout[-600:]
    if not skip_baseline:
      xml = os.path.join(tempfile.gettempdir(), os.path.basename(wt) + ".xml")
      run(["/venv/bin/python", "-m", "pytest", "-q", "-p", "no:cacheprovider",
           "--timeout=900", "--continue-on-collection-errors",
           "--junitxml=" + xml], cwd=wt, env=env)
      b = json.load(open("/root/.vp/BASELINE.json"))
      passed = set()
      for tc in ET.parse(xml).iter("testcase"):
        if not any(c.tag in ("failure", "error", "skipped") for c in tc):
          passed.add(tc.get("classname") + "::" + tc.get("name"))
      missing = sorted(set(b["stable_pass"]) - passed)
      res["baseline_passed"] = len(passed)
      res["baseline_missing"] = missing
      os.remove(xml)
    res["confirmed"] = (res["demo_clean_exit"] == 0 and res["apply_exit"] == 0
                        and res["demo_patched_exit"] == 1 and
                        (skip_baseline or not res["baseline_missing"]))
  finally:
    run(["git", "-C", "/repo", "worktree", "remove", "--force", wt])
    shutil.rmtree(wt, ignore_errors=True)
    run(["git", "-C", "/repo", "worktree", "prune"])
  with open(os.path.join(d, "confirm.json"), "w") as f:
    json.dump(res, f, indent=1)
  print(os.path.basename(d), "confirmed" if res["confirmed"] else "NOT CONFIRMED",
        {k: v for k, v in res.items() if k.endswith("exit") or
         k in ("baseline_passed",)}, (res.get("baseline_missing") or [])[:3])


if __name__ == "__main__":
  main()
