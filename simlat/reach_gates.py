"""Reach probes that must be non-zero in a thorough batch (>= 1000 runs).

A probe stuck at zero means the workload or the fault mix no longer reaches
what the oracle needs; the batch then ends as a harness error (exit 2), never
as a pass.
"""
_MODEL_FAULTS = [
    "fault:order_permute", "fault:partial_update", "fault:protocol_switch",
    "fault:lr_jump", "fault:keras_fit", "fault:finalize", "fault:crash_soft",
    "fault:lost_checkpoint", "fault:reload_weights", "fault:global_state_skew",
    "fault:checkpoint:memory", "fault:checkpoint:weights_h5",
    "fault:checkpoint:weights_v3", "fault:checkpoint:weights_tf",
    "fault:checkpoint:full_h5", "fault:checkpoint:keras",
    "fault:rebuild_from_user_code", "fault:clone_model",
    "reach:restore_from_non_newest",
    "reach:second_hop_restore",
]

REQUIRED = {
    "C07": [
        "reach:scale_zero_at_check",
        "reach:scale_all_nonpositive",
        "reach:scale_mixed_signs",
        "reach:stale_sign_present",
        "reach:legacy_kernel_before_scale",
        "reach:restore_from_older_snapshot",
        "reach:scale_entry_became_zero",
        "fault:sign_flip",
        "fault:order_permute",
        "fault:partial_update",
        "fault:protocol_switch",
        "fault:manual_constraint",
        "fault:raw_write",
        "fault:finalize",
        "fault:lr_jump",
        "fault:snapshot_restore",
        "fault:toggle_trainable",
    ],
    "C03": _MODEL_FAULTS + ["reach:stale_sign_present", "check:active"],
    "C11": _MODEL_FAULTS + [
        "fault:crash_hard", "fault:hard_restart", "fault:checkpoint:savedmodel",
        "reach:hard_restart_compared", "restore_compared",
        "objects_round_tripped",
    ],
}
