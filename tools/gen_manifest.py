#!/usr/bin/env python3
"""Regenerates /verif/MANIFEST.json (kept valid at all times)."""
import json
import os

ROOT = os.path.dirname(os.path.dirname(os.path.abspath(__file__)))

NA = {
    "C01": "LatticeConstraints.__call__/finalize_constraints are stateless kernel->kernel functions; 'for every kernel and configuration' contains no schedule, fault, clock or history for a simulator to control.",
    "C02": "Interpolation is a pure function of (kernel, x); nothing to interleave, delay or interrupt.",
    "C04": "PWL project_all_constraints is a stateless weights->weights function; the iteration count is a parameter, not a schedule.",
    "C05": "Calibrator evaluation is a pure function of weights and input.",
    "C06": "Linear/categorical projections are stateless weight->weight functions.",
    "C08": "Convergence within num_iterations is a limit statement about a deterministic loop inside one call; no scheduler, fault or progress-after-faults notion exists to simulate.",
    "C09": "Unit/batch non-interference is an algebraic fact about tensor axes of pure functions; the library has no batcher or queue whose grouping could be scheduled.",
    "C10": "An initializer's output is a pure function of (configuration, RNG draw); the draw is just another input. (Feasibility at construction is exercised as event 0 of C03 histories, reported under C03 only.)",
    "C12": "assert_constraints is a pure predicate on weights.",
    "C13": "Regularizers are pure scalar functions of a kernel.",
    "C14": "Equality of two pure functions on the same arguments.",
    "C15": "Boundedness/monotonicity of pure functions of free parameters.",
    "C16": "Accept-or-reject and totality of pure functions of hyper-parameters.",
    "C17": "Ensemble arrangement is a pure combinatorial function of (features, rank, seed); enumerating seeds is input generation, not simulation.",
    "C18": "compute_keypoints is a pure NumPy function of a data array.",
    "C19": "Gradient correctness is a statement about autodiff of pure functions.",
    "C20": "Linear.call is a pure function of (kernel, bias, x).",
}

PENDING = {
}

CHECKS = {
    "C07": {
        "text": "Seeded search (deterministic simulation with fault injection) over KroneckerFactoredLattice configurations (lattice_sizes 2-5, dims 1-4, units 1-3, terms 1-4, every monotonicity subset incl. none, bound modes none/min/max/both incl. bounds equal to 0, clip on/off, tensor or list inputs, default or hostile initializers) and histories of real tf_keras optimizer steps in both families (update-all-then-constrain-all vs per-variable update->constrain), permuted/partial grads_and_vars, hostile gradients (blast, adversarial tape, sign-flipper, zero-maker), manual constraint application in either order, finalize_constraints, raw writes and snapshot/restore. After every event at which each variable's constraint has been applied since its last raw write, output monotonicity along every increasing dimension and output bounds are checked on redrawn probe lines (in range, on vertices, out of range when clip_inputs). Sampling, not proof: a clean batch is evidence that no order/sign-pattern/configuration in the explored distribution breaks the property.",
        "design_ref": "DESIGN.md sections 2 and 4",
        "note": "Trusted: TF eager kernels, tf_keras optimizers, float32 tolerance 1e-5*(1+|bias|+mean|scale|*prod max|w|), finite probe sets, the per-variable reading of 'constraints have been applied'. One known finding (stale kernel projection after a scale sign change caused by a raw write) is listed in known_findings.json and matched only by its structural condition; a sign flip performed by the scale constraint itself is never excused.",
        "technique": "deterministic simulation with fault injection: seeded schedule/fault search with reference state machine, ddmin minimisation and exact replay",
    },
    "C03": {
        "text": "Seeded search over premade model configs (CalibratedLinear / CalibratedLattice / CalibratedLatticeEnsemble with explicit, random and RTL structure, both parameterizations, output calibration, linear combination, trusts, dominances, unimodality) and hand-assembled stacks (separate calibrators or ParallelCombination -> Lattice | Linear | KroneckerFactoredLattice | RTL | multi-unit lattice + average, optional output calibrator, monotonic_at_every_step on/off), driven by histories of hostile real-optimizer steps, order/subset perturbations, learning-rate jumps, optimizer-family switches, real Model.fit calls, finalize, checkpoints in six formats, soft crashes with global-state skew, lost checkpoints, restarts that re-run the model-building code, and weight reloads. After construction and after every event the model output is compared on input pairs differing in one constrained feature (numeric increasing/decreasing, categorical pairs) and against configured output bounds including missing values, on random plus keypoint/corner probes.",
        "design_ref": "DESIGN.md sections 2 and 3",
        "note": "Trusted: TF eager kernels, tf_keras optimizers/saving, tolerance 1e-5*(1+bound on intermediate magnitudes+max|output|), finite probe sets; EMA and non-finite gradients excluded; monotonic_at_every_step=False stacks are checked only after finalize. Known findings (KFL stale kernel projection) are matched by structural condition only.",
        "technique": "deterministic simulation with fault injection: seeded history/fault search over real models with pairwise output oracle, ddmin minimisation and exact replay",
    },
    "C11": {
        "text": "Seeded search over single tfl layers with themed non-default constructor arguments (PWLCalibration, CategoricalCalibration, Lattice incl. single-tuple 2D constraints, Linear, KroneckerFactoredLattice, RTL incl. grouped inputs, CDF, ParallelCombination), hand-assembled stacks and the four premade model classes (incl. AggregateFunction on ragged inputs), driven through histories of training steps, checkpoints (config JSON + legacy-H5 / v3 / TF-format weights, full H5, .keras, SavedModel, in-memory weights), soft crashes with global-state skew, hard crashes (fresh interpreter, other PYTHONHASHSEED, only tfl.premade.get_custom_objects()), restarts that re-run the model-building code and load saved weights (seed-derived structure is recomputed), lost newest checkpoint and second-hop restores. At every restore the rebuilt object's model config, sub-layer configs, constructor-argument attributes, variables and attached constraints, outputs on recorded probes, regularization penalty and assert_constraints status are compared with the durable image recorded by a trivial in-memory reference model; in addition every layer, constraint, initializer, regularizer and config object reachable from the model, and the premade model object itself, is rebuilt from get_config() twice from the same dictionary (inside a custom_object_scope, and - where from_config declares custom_objects - through that parameter with no scope) and compared by config and by behaviour; the thorough tier requires each of the 39 instantiable tensorflow_lattice classes that define get_config to have been rebuilt at least once.",
        "design_ref": "DESIGN.md sections 2 and 5",
        "note": "Trusted: h5py/zip/SavedModel writers, atomic checkpoint files, equality tolerance 1e-6*(1+|y|); Keras-only artefacts (optimizer slots in legacy H5, v3 weight files of compiled models) are avoided.",
        "technique": "deterministic simulation with fault injection: seeded crash-point/restart search against an in-memory durable-image reference model, ddmin minimisation and exact replay",
    },
}

BUILT = [p for p in ("C03", "C07", "C11") if p not in PENDING]

BASELINE = ("cd /repo && /venv/bin/python -m pytest -ra -q -p no:cacheprovider "
            "--timeout=900 --continue-on-collection-errors")


def main():
  props = [json.loads(l) for l in open(os.path.join(ROOT, "properties.jsonl"))]
  ids = [p["id"] for p in props]
  checks = []
  for pid in BUILT:
    c = CHECKS[pid]
    checks.append({
        "property_id": pid,
        "quick_cmd": "timeout 1500 /venv/bin/python -m simlat check %s --tier quick" % pid,
        "thorough_cmd": "timeout 7200 /venv/bin/python -m simlat check %s --tier thorough" % pid,
        "evidence_file": "/verif/evidence/%s.json" % pid,
        "replay_cmd_template": "/venv/bin/python -m simlat replay {path}",
        "engine": "simlat",
        "level_claimed": {"category": "exploration", "text": c["text"],
                          "design_ref": c["design_ref"]},
        "level_note": c["note"],
        "technique": c["technique"],
    })
  na = []
  for pid in ids:
    if pid in BUILT:
      continue
    reason = PENDING.get(pid) or NA[pid]
    na.append({"property_id": pid, "reason": reason})
  manifest = {
      "version": 1,
      "setup_cmd": "/venv/bin/python -m simlat selfcheck",
      "hooks": {
          "guard": "TENSORFLOW_LATTICE_VERIF",
          "enable": "no source hook exists: the simulator drives tensorflow_lattice through seams it already has (Keras variable.constraint attribute, grads_and_vars, get_config/from_config, Keras saving). Checks import tensorflow_lattice from /repo's working tree (editable install, no build step) and set TENSORFLOW_LATTICE_VERIF=1, which nothing in /repo reads.",
          "baseline_off_cmd": BASELINE,
          "source_commits": [],
          "add_only": True,
      },
      "engines": [{
          "name": "simlat",
          "path": "/verif/simlat",
          "serves_properties": BUILT,
          "kind_free_text": "deterministic simulator written for this repository: seeded world + history generation from named PRNG sub-streams, real tf_keras optimizers/saving driven through existing seams, reference state machines as oracles, fault injection (order permutation, partial updates, protocol switches, lr jumps, raw writes, crashes/restarts, lost checkpoints, global-state skew), ddmin minimisation, JSON replay files, determinism self-test across fresh interpreters",
      }],
      "checks": checks,
      "not_applicable": na,
      "notes": "Exit codes: 0 held (KNOWN-FINDING lines possible), 1 VIOLATION, 2 harness error. VERIF_SEED selects the batch of run seeds; VERIF_REPO (default /repo) selects the tree tensorflow_lattice is imported from; VERIF_WORKERS (default 16).",
  }
  with open(os.path.join(ROOT, "MANIFEST.json"), "w") as f:
    json.dump(manifest, f, indent=1)
    f.write("\n")


if __name__ == "__main__":
  main()
