"""World builders: generated specs -> real tfl models, plus oracle descriptors.

A builder offers
  gen(stream, tier)          -> JSON spec (only configurations that
                                verify_config and the layer constructors accept)
  build(spec)                -> keras.Model (real tfl code)
  features(spec)             -> oracle descriptors, one per model input
  bounds(spec)               -> (output_min, output_max) promised for the output
"""
import numpy as np

from .. import env


def _r(x, nd=3):
  return float(round(float(x), nd))


# ---------------------------------------------------------------------------
# Feature specs


def gen_keypoints(s, n=None):
  n = n or s.integer(2, 6)
  start = _r(s.uniform(-5.0, 5.0), 2)
  kps = [start]
  for _ in range(n - 1):
    kps.append(_r(kps[-1] + s.log10_uniform(-0.7, 0.5), 2))
  # Strictly increasing after rounding.
  for i in range(1, len(kps)):
    if kps[i] <= kps[i - 1]:
      kps[i] = _r(kps[i - 1] + 0.05, 2)
  return kps


def gen_numeric_feature(s, name, lattice_size, allow_unimodal, p_mono=0.7):
  kps = gen_keypoints(s)
  mono = 0
  if s.chance(p_mono):
    mono = s.choice([1, -1])
  spelled = mono
  if s.chance(0.5):
    spelled = {1: "increasing", -1: "decreasing", 0: "none"}[mono]
  # Valid (if unusual) for every monotonicity, not only for 'none'.
  always = bool(s.chance(0.3))
  convexity = 0
  kp_type = "fixed"
  if s.chance(0.25):
    convexity = s.choice([1, -1, "convex", "concave"])
  elif s.chance(0.3):
    kp_type = "learned_interior"
  eff_mono = mono != 0 or always
  clamp_min = bool(eff_mono and s.chance(0.2))
  clamp_max = bool(eff_mono and s.chance(0.2))
  default = None
  if s.chance(0.3):
    default = s.choice([_r(kps[0] - 1.0, 2), -1.0, _r(kps[-1] + 2.0, 2),
                        _r((kps[0] + kps[-1]) / 2.0, 2)])
  unimodality = 0
  if allow_unimodal and mono == 0 and lattice_size >= 3 and s.chance(0.45):
    unimodality = s.choice(["valley", "peak", 1, -1])
  fregs = []
  if s.sub("feature-regs").chance(0.25):
    # Per-feature calibrator regularizers (the 'calib_' prefix is accepted by
    # every model kind).
    rs = s.sub("feature-regs-v")
    fregs.append([rs.choice(["calib_hessian", "calib_laplacian",
                             "calib_wrinkle"]),
                  _r(rs.log10_uniform(-4, -2), 5), _r(rs.log10_uniform(-4, -2), 5)])
  return {
      "name": name,
      "type": "num",
      "regularizers": fregs,
      "keypoints_numpy": s.sub("kp-numpy").chance(0.35),
      "lattice_size": lattice_size,
      "monotonicity": spelled,
      "always_monotonic": always,
      "convexity": convexity,
      "keypoints": kps,
      "keypoints_type": kp_type,
      "clamp_min": clamp_min,
      "clamp_max": clamp_max,
      "default_value": default,
      "unimodality": unimodality,
  }


def gen_categorical_feature(s, name, lattice_size):
  nb = s.integer(2, 5)
  pairs = None
  if s.chance(0.65):
    perm = s.permutation(nb)
    k = s.integer(1, min(4, nb * (nb - 1) // 2))
    cand = [(perm[i], perm[j]) for i in range(nb) for j in range(i + 1, nb)]
    idx = s.permutation(len(cand))[:k]
    pairs = [[int(cand[i][0]), int(cand[i][1])] for i in sorted(idx)]
  default = -1 if s.chance(0.3) else None
  return {
      "name": name,
      "type": "cat",
      "lattice_size": lattice_size,
      "num_buckets": nb,
      "monotonicity": pairs,
      "default_value": default,
  }


def direction_of(f):
  m = f.get("monotonicity")
  if f["type"] != "num":
    return 0
  if m in (1, "increasing"):
    return 1
  if m in (-1, "decreasing"):
    return -1
  return 0


def feature_config(tfl, f, extra=None):
  extra = dict(extra or {})
  if f.get("regularizers"):
    extra["regularizer_configs"] = [
        tfl.configs.RegularizerConfig(name=r[0], l1=r[1], l2=r[2])
        for r in f["regularizers"]]
  if f["type"] == "cat":
    return tfl.configs.FeatureConfig(
        name=f["name"],
        lattice_size=f["lattice_size"],
        num_buckets=f["num_buckets"],
        monotonicity=([tuple(p) for p in f["monotonicity"]]
                      if f["monotonicity"] else "none"),
        default_value=f["default_value"],
        **extra)
  return tfl.configs.FeatureConfig(
      name=f["name"],
      lattice_size=f["lattice_size"],
      monotonicity=f["monotonicity"],
      unimodality=f.get("unimodality", 0),
      pwl_calibration_always_monotonic=f["always_monotonic"],
      pwl_calibration_convexity=f["convexity"],
      pwl_calibration_num_keypoints=len(f["keypoints"]),
      # Keypoints usually come out of compute_keypoints as numpy arrays.
      pwl_calibration_input_keypoints=(
          np.asarray(f["keypoints"], dtype=np.float64)
          if f.get("keypoints_numpy") else list(f["keypoints"])),
      pwl_calibration_input_keypoints_type=f["keypoints_type"],
      pwl_calibration_clamp_min=f["clamp_min"],
      pwl_calibration_clamp_max=f["clamp_max"],
      default_value=f["default_value"],
      **extra)


def _gen_dominances(s, mains):
  """Acyclic dominance pairs (dominant before weak in `mains` order); several
  pairs may share a feature."""
  cand = [(i, j) for i in range(len(mains)) for j in range(i + 1, len(mains))]
  k = s.integer(min(2, len(cand)), min(3, len(cand)))
  idx = sorted(s.permutation(len(cand))[:k])
  return [{"dominant": mains[cand[i][0]], "weak": mains[cand[i][1]]}
          for i in idx]


def gen_bounds(s):
  mode = s.weighted([("none", 3), ("min", 1.5), ("max", 1.5), ("both", 4)])
  lo = _r(s.uniform(-3.0, 3.0), 2)
  width = _r(s.log10_uniform(-0.5, 1.0), 2)
  if s.chance(0.3):
    lo = float(s.choice([0.0, -1.0, 0.5, 1.0]))
    width = float(s.choice([1.0, 2.0, 1.5]))
  omin = lo if mode in ("min", "both") else None
  omax = _r(lo + width, 2) if mode in ("max", "both") else None
  return omin, omax


def init_safe_bounds(omin, omax):
  """One-sided bounds for which lattice_lib.default_init_params yields a
  non-empty initialisation range (otherwise the layer rejects the config)."""
  if omin is not None and omax is None and omin >= 1.0:
    omin = 0.5
  if omax is not None and omin is None and omax <= 0.0:
    omax = 0.5
  return omin, omax


def gen_output_init(s, omin, omax, n):
  lo = omin if omin is not None else (omax - 2.0 if omax is not None else -1.0)
  hi = omax if omax is not None else (omin + 2.0 if omin is not None else 1.0)
  if n <= 1:
    return [_r((lo + hi) / 2)]
  vals = np.sort(np.linspace(lo, hi, n))
  return [_r(v, 4) for v in vals]


# ---------------------------------------------------------------------------
# Premade models


class PremadeBuilder(object):
  NAME = "premade"
  WEIGHT = {"C03": 1.0, "C11": 1.0}

  @staticmethod
  def gen(s, tier):
    kind = s.weighted([("linear", 3), ("lattice", 4), ("ensemble", 5)])
    model = {"kind": kind}
    omin, omax = gen_bounds(s)
    model["output_min"], model["output_max"] = omin, omax
    model["output_calibration"] = s.chance(0.3)
    n_init = s.integer(2, 5) if model["output_calibration"] else 2
    model["output_initialization"] = gen_output_init(s, omin, omax, n_init)
    model["output_calibration_input_keypoints_type"] = (
        "learned_interior" if model["output_calibration"] and s.chance(0.25)
        else "fixed")
    param = "all_vertices"
    if kind in ("lattice", "ensemble") and s.chance(0.35):
      param = "kronecker_factored"
    model["parameterization"] = param
    model["num_terms"] = s.integer(1, 3)
    model["interpolation"] = s.choice(["hypercube", "simplex"])
    model["random_seed"] = s.choice([0, s.integer(1, 1000), s.integer(1, 1000)])
    structure = None
    if kind == "ensemble":
      structure = s.weighted([("explicit", 4), ("random", 3), ("rtl", 3)])
    model["structure"] = structure
    same_size = (param == "kronecker_factored" or structure == "rtl")
    n_feat = s.integer(1, 4) if kind != "ensemble" else s.integer(2, 5)
    base_size = s.weighted([(2, 5), (3, 3), (4, 1)])
    allow_unimodal = (param == "all_vertices" and structure != "rtl" and
                      kind != "linear")
    feats = []
    for i in range(n_feat):
      size = base_size if same_size else s.weighted([(2, 5), (3, 3), (4, 1)])
      fs = s.sub("feature", i)
      if fs.chance(0.25):
        feats.append(gen_categorical_feature(fs, "f%d" % i, size))
      else:
        feats.append(gen_numeric_feature(fs, "f%d" % i, size, allow_unimodal))
    model["use_bias"] = False
    if kind == "linear":
      model["use_bias"] = s.chance(0.6)
    if kind == "ensemble":
      rank = s.integer(1, min(3, n_feat))
      if structure == "rtl":
        rank = s.integer(2, 3)  # RTL reuses features to fill lattices.
      num_lat = s.integer(2, 4)
      # Every feature must be used: num_lat * rank >= n_feat.
      while num_lat * rank < n_feat:
        num_lat += 1
      model["lattice_rank"] = rank
      model["num_lattices"] = num_lat
      model["separate_calibrators"] = s.chance(0.5)
      model["use_linear_combination"] = s.chance(0.4)
      bounded = (omin is not None or omax is not None or
                 model["output_calibration"])
      model["use_bias"] = bool(model["use_linear_combination"] and
                               not bounded and s.chance(0.5))
      if structure == "explicit":
        names = [f["name"] for f in feats]
        lattices = [[] for _ in range(num_lat)]
        order = s.permutation(n_feat)
        for k, fi in enumerate(order):
          lattices[k % num_lat].append(names[fi])
        for lat in lattices:
          while len(lat) < rank:
            rest = [n for n in names if n not in lat]
            if not rest:
              break
            lat.append(s.choice(rest))
        lattices = [lat for lat in lattices if lat]
        while len(lattices) < 2:
          lattices.append([s.choice(names)])
        model["lattices"] = lattices
    # 2D shape constraints that perturb the projections (all_vertices only,
    # never RTL, never KFL).
    model["trusts"] = []
    model["dominances"] = []
    if (param == "all_vertices" and structure in (None, "explicit") and
        kind != "linear" and s.chance(0.5)):
      names = [f["name"] for f in feats]
      # Lattice dimensions are increasing for every constrained feature
      # (decreasing ones are flipped by their calibrator).
      mains = [f["name"] for f in feats
               if (f["type"] == "num" and direction_of(f) != 0) or
               (f["type"] == "cat" and f["monotonicity"])]
      conds = [f["name"] for f in feats if f["name"] not in mains]
      if mains and conds:
        model["trusts"].append({
            "main": s.choice(mains),
            "cond": s.choice(conds),
            "type": s.choice(["edgeworth", "trapezoid"]),
            "direction": s.choice(["positive", "negative", 1, -1]),
        })
      if len(mains) >= 2 and s.chance(0.5):
        model["dominances"] = _gen_dominances(s.sub("dom"), mains)
    if kind == "linear" and s.chance(0.5):
      # Linear dominance needs both weights increasing: numeric features of
      # either direction and ordered categoricals all map to increasing.
      mains = [f["name"] for f in feats
               if (f["type"] == "num" and direction_of(f) != 0) or
               (f["type"] == "cat" and f["monotonicity"])]
      if len(mains) >= 2:
        model["dominances"] = _gen_dominances(s.sub("dom"), mains)
    model["regularizers"] = []
    if s.chance(0.3):
      model["regularizers"].append([s.choice(["calib_laplacian",
                                              "calib_hessian"]), 0.0, 1e-3])
    if s.chance(0.1) and param == "all_vertices" and kind != "linear":
      model["regularizers"].append([s.choice(["torsion", "laplacian"]), 1e-3,
                                    1e-3])
    return {"builder": "premade", "features": feats, "model": model}

  @staticmethod
  def model_config(spec):
    _, _, tfl = env.mods()
    m = spec["model"]
    extras = {f["name"]: {} for f in spec["features"]}
    for t in m.get("trusts", []):
      extras[t["cond"]].setdefault("reflects_trust_in", []).append(
          tfl.configs.TrustConfig(feature_name=t["main"], trust_type=t["type"],
                                  direction=t["direction"]))
    for d in m.get("dominances", []):
      extras[d["dominant"]].setdefault("dominates", []).append(
          tfl.configs.DominanceConfig(feature_name=d["weak"],
                                      dominance_type="monotonic"))
    fcs = [feature_config(tfl, f, extras[f["name"]]) for f in spec["features"]]
    regs = [tfl.configs.RegularizerConfig(name=r[0], l1=r[1], l2=r[2])
            for r in m.get("regularizers", [])] or None
    common = dict(
        feature_configs=fcs,
        regularizer_configs=regs,
        output_min=m["output_min"],
        output_max=m["output_max"],
        output_calibration=m["output_calibration"],
        output_calibration_num_keypoints=len(m["output_initialization"]),
        output_initialization=list(m["output_initialization"]),
        output_calibration_input_keypoints_type=m[
            "output_calibration_input_keypoints_type"],
    )
    if m["kind"] == "linear":
      return tfl.configs.CalibratedLinearConfig(use_bias=m["use_bias"],
                                                **common)
    if m["kind"] == "lattice":
      return tfl.configs.CalibratedLatticeConfig(
          interpolation=m["interpolation"],
          parameterization=m["parameterization"],
          num_terms=m["num_terms"],
          random_seed=m["random_seed"],
          **common)
    lattices = {"explicit": m.get("lattices"), "random": "random",
                "rtl": "rtl_layer"}[m["structure"]]
    cfg = tfl.configs.CalibratedLatticeEnsembleConfig(
        lattices=lattices,
        num_lattices=m["num_lattices"],
        lattice_rank=m["lattice_rank"],
        interpolation=m["interpolation"],
        parameterization=m["parameterization"],
        num_terms=m["num_terms"],
        separate_calibrators=m["separate_calibrators"],
        use_linear_combination=m["use_linear_combination"],
        use_bias=m["use_bias"],
        random_seed=m["random_seed"],
        **common)
    if m["structure"] == "random":
      tfl.premade_lib.set_random_lattice_ensemble(cfg)
    return cfg

  @staticmethod
  def build(spec):
    _, _, tfl = env.mods()
    cfg = PremadeBuilder.model_config(spec)
    cls = {"linear": tfl.premade.CalibratedLinear,
           "lattice": tfl.premade.CalibratedLattice,
           "ensemble": tfl.premade.CalibratedLatticeEnsemble}[
               spec["model"]["kind"]]
    return cls(cfg)

  @staticmethod
  def features(spec):
    return oracle_features(spec["features"])

  @staticmethod
  def bounds(spec):
    return spec["model"]["output_min"], spec["model"]["output_max"]

  @staticmethod
  def simplifications(spec):
    out = []
    m = spec["model"]
    for key, val in (("output_calibration", False), ("use_linear_combination",
                                                    False),
                     ("separate_calibrators", False), ("regularizers", []),
                     ("trusts", []), ("dominances", []),
                     ("interpolation", "hypercube")):
      if key in m and m[key] != val and m[key]:
        m2 = dict(m)
        m2[key] = val
        if key == "output_calibration":
          m2["output_initialization"] = [m["output_initialization"][0],
                                         m["output_initialization"][-1]]
          m2["output_calibration_input_keypoints_type"] = "fixed"
        out.append(dict(spec, model=m2))
    feats = spec["features"]
    if len(feats) > 1 and m["kind"] != "ensemble":
      for i in range(len(feats)):
        name = feats[i]["name"]
        if any(name in (t["main"], t["cond"]) for t in m.get("trusts", [])):
          continue
        if any(name in (d["dominant"], d["weak"])
               for d in m.get("dominances", [])):
          continue
        out.append(dict(spec, features=feats[:i] + feats[i + 1:]))
    for i, f in enumerate(feats):
      if f["type"] == "num":
        for key, val in (("convexity", 0), ("keypoints_type", "fixed"),
                         ("clamp_min", False), ("clamp_max", False),
                         ("default_value", None), ("unimodality", 0),
                         ("always_monotonic", False)):
          if f.get(key) != val and f.get(key):
            f2 = dict(f)
            f2[key] = val
            out.append(dict(spec, features=feats[:i] + [f2] + feats[i + 1:]))
    return out


def oracle_features(feats):
  out = []
  for f in feats:
    if f["type"] == "cat":
      out.append({
          "name": f["name"],
          "type": "cat",
          "num_buckets": f["num_buckets"],
          "pairs": [tuple(p) for p in (f["monotonicity"] or [])],
          "default": f["default_value"],
      })
    else:
      out.append({
          "name": f["name"],
          "type": "num",
          "direction": direction_of(f),
          "keypoints": list(f["keypoints"]),
          "missing": f["default_value"],
      })
  return out


BUILDERS = {"premade": PremadeBuilder}


# ---------------------------------------------------------------------------
# Hand-assembled stacks: calibrators -> Lattice | Linear | KFL | RTL [-> PWL]


def _inputs_for(keras, tf, feats):
  ins = []
  for f in feats:
    dt = tf.int32 if (f["type"] == "cat" and not f.get("as_float")) else (
        tf.float32)
    ins.append(keras.Input(shape=(1,), dtype=dt, name="in_" + f["name"]))
  return ins


def _calibrator(tfl, keras, f, out_min, out_max, name, units=1):
  if f["type"] == "cat":
    return tfl.layers.CategoricalCalibration(
        num_buckets=f["num_buckets"],
        units=units,
        output_min=out_min,
        output_max=out_max,
        monotonicities=([tuple(p) for p in f["monotonicity"]]
                        if f["monotonicity"] else None),
        default_input_value=f["default_value"],
        kernel_initializer=f.get("cat_init", "uniform"),
        name=name)
  mono = f["monotonicity"]
  if direction_of(f) == 0 and f["always_monotonic"]:
    mono = 1
  kwargs = {}
  if f["default_value"] is not None:
    kwargs.update(impute_missing=True, missing_input_value=f["default_value"])
    if f.get("missing_output_frac") is not None:
      # A user-chosen constant inside the calibrator's own output range.
      lo = out_min if out_min is not None else 0.0
      hi = out_max if out_max is not None else lo + 1.0
      kwargs["missing_output_value"] = _r(
          lo + f["missing_output_frac"] * (hi - lo), 3)
  return tfl.layers.PWLCalibration(
      input_keypoints=(np.asarray(f["keypoints"], dtype=np.float64)
                       if f.get("keypoints_numpy") else list(f["keypoints"])),
      units=units,
      output_min=out_min,
      output_max=out_max,
      clamp_min=f["clamp_min"],
      clamp_max=f["clamp_max"],
      monotonicity=mono,
      convexity=f["convexity"],
      input_keypoints_type=f["keypoints_type"],
      kernel_initializer=f.get("pwl_init", "equal_heights"),
      num_projection_iterations=f.get("num_projection_iterations", 8),
      name=name,
      **kwargs)


class StackBuilder(object):
  NAME = "stack"
  WEIGHT = {"C03": 0.45, "C11": 0.5}

  @staticmethod
  def gen(s, tier):
    mid = s.weighted([("lattice", 4), ("linear", 2), ("kfl", 2), ("rtl", 2),
                      ("multiunit", 2)])
    size = s.weighted([(2, 5), (3, 3), (4, 1)])
    n_feat = s.integer(1, 4) if mid != "rtl" else s.integer(2, 4)
    same = mid in ("kfl", "rtl")
    mu_kfl = bool(mid == "multiunit" and s.chance(0.4))
    same = same or mu_kfl
    # Deferred strictness (monotonic_at_every_step=False): finalize has real
    # work to do only on lattices large enough for Dykstra not to converge.
    every_step = not s.sub("every-step").chance(0.3)
    big = bool(mid == "lattice" and not every_step)
    if big:
      n_feat = min(n_feat, 2)
    feats = []
    for i in range(n_feat):
      fs = s.sub("feature", i)
      sz = size if same else fs.weighted([(2, 5), (3, 3), (4, 1)])
      if big:
        sz = fs.weighted([(3, 2), (4, 3), (5, 3), (6, 3)])
      if fs.chance(0.25):
        f = gen_categorical_feature(fs, "f%d" % i, sz)
        f["cat_init"] = fs.choice(["uniform", "constant"])
      else:
        f = gen_numeric_feature(fs, "f%d" % i, sz, allow_unimodal=False)
        f["pwl_init"] = fs.choice(["equal_heights", "equal_slopes"])
        f["num_projection_iterations"] = fs.choice([8, 8, 4, 12])
        if f["default_value"] is not None and fs.chance(0.4):
          f["missing_output_frac"] = _r(fs.uniform(0.0, 1.0), 2)
      feats.append(f)
    omin, omax = gen_bounds(s)
    if mid == "linear":
      # Only the weighted-average form of Linear promises output bounds.
      omin, omax = (0.0, 1.0) if s.chance(0.5) else (None, None)
    if mid in ("lattice", "rtl", "multiunit"):
      omin, omax = init_safe_bounds(omin, omax)
    st = {
        "mid": mid,
        "combine": s.choice(["concat", "concat", "list", "parallel",
                             "parallel_list"]),
        "units": s.integer(2, 3),
        "multiunit_kfl": mu_kfl,
        "output_min": omin,
        "output_max": omax,
        "clip_inputs": s.chance(0.5),
        "interpolation": s.choice(["hypercube", "simplex"]),
        "monotonic_at_every_step": every_step,
        "calib_unbounded": s.chance(0.3),
        "num_projection_iterations": (s.choice([1, 2, 10]) if big else
                                      s.choice([10, 10, 5, 15])),
        "num_terms": s.integer(1, 3),
        "kernel_init": s.choice(["default", "linear_initializer",
                                 "random_monotonic_initializer"]),
        "out_calib": s.chance(0.25),
        "out_calib_keypoints": s.integer(2, 4),
        "use_bias": s.chance(0.5),
        "rtl": {"num_lattices": s.integer(2, 3), "lattice_rank": s.integer(2, 3),
                "random_seed": s.integer(0, 99),
                "parameterization": s.choice(["all_vertices",
                                              "kronecker_factored"]),
                "avoid_intragroup_interaction": s.chance(0.7),
                "two_layer": s.chance(0.4)},
    }
    # Unbounded calibrators are legitimate in front of a layer that clips.
    if not (mid in ("lattice", "kfl") and st["clip_inputs"]):
      st["calib_unbounded"] = False
    while st["rtl"]["num_lattices"] * st["rtl"]["lattice_rank"] < n_feat:
      st["rtl"]["num_lattices"] += 1
    if mid == "kfl" or (mid == "rtl" and
                        st["rtl"]["parameterization"] == "kronecker_factored"):
      st["interpolation"] = "hypercube"
    if mid in ("rtl", "multiunit") or (mid == "linear" and
                                       st["combine"] == "parallel_list"):
      st["combine"] = "concat"
    if st["combine"].startswith("parallel"):
      for f in feats:
        f["as_float"] = True
    if mid == "lattice" and st["kernel_init"] == "random_monotonic_initializer":
      pass
    return {"builder": "stack", "features": feats, "stack": st}

  @staticmethod
  def build(spec):
    tf, keras, tfl = env.mods()
    feats, st = spec["features"], spec["stack"]
    ins = _inputs_for(keras, tf, feats)
    mid = st["mid"]
    cal = []
    k_units = st.get("units", 1) if mid == "multiunit" else 1
    layers = []
    for f, x in zip(feats, ins):
      if mid == "linear":
        rng_min, rng_max = 0.0, 1.0
      else:
        rng_min, rng_max = 0.0, f["lattice_size"] - 1.0
      if st.get("calib_unbounded"):
        rng_min = rng_max = None
      layers.append(_calibrator(tfl, keras, f, rng_min, rng_max,
                                "calib_" + f["name"], units=k_units))
    if st["combine"].startswith("parallel"):
      pc = tfl.layers.ParallelCombination(
          calibration_layers=layers,
          single_output=(st["combine"] == "parallel"), name="parallel_calib")
      joined = keras.layers.Concatenate(axis=1)(ins) if len(ins) > 1 else ins[0]
      out = pc(joined)
      cal = out if isinstance(out, (list, tuple)) else None
      if cal is None:
        cal_single = out
    else:
      cal = [layer(x) for layer, x in zip(layers, ins)]
    monos = [1 if (direction_of(f) != 0 or
                   (f["type"] == "cat" and f["monotonicity"])) else 0
             for f in feats]
    if mid == "lattice":
      kw = {}
      if st["kernel_init"] != "default":
        kw["kernel_initializer"] = st["kernel_init"]
      layer = tfl.layers.Lattice(
          lattice_sizes=[f["lattice_size"] for f in feats],
          monotonicities=monos,
          output_min=st["output_min"],
          output_max=st["output_max"],
          clip_inputs=st["clip_inputs"],
          interpolation=st["interpolation"],
          monotonic_at_every_step=st["monotonic_at_every_step"],
          num_projection_iterations=st["num_projection_iterations"],
          name="mid_lattice",
          **kw)
      x = StackBuilder._join(keras, st, cal, locals().get("cal_single"))
      y = layer(x)
    elif mid == "kfl":
      layer = tfl.layers.KroneckerFactoredLattice(
          lattice_sizes=feats[0]["lattice_size"],
          num_terms=st["num_terms"],
          monotonicities=monos,
          output_min=st["output_min"],
          output_max=st["output_max"],
          clip_inputs=st["clip_inputs"],
          name="mid_kfl")
      x = StackBuilder._join(keras, st, cal, locals().get("cal_single"))
      y = layer(x)
    elif mid == "linear":
      bounded = st["output_min"] is not None
      layer = tfl.layers.Linear(
          num_input_dims=len(feats),
          monotonicities=[1] * len(feats) if bounded else monos,
          normalization_order=1 if bounded else None,
          use_bias=False if bounded else st["use_bias"],
          kernel_initializer=keras.initializers.Constant(1.0 / len(feats)),
          name="mid_linear")
      x = StackBuilder._join(keras, dict(st, combine=(
          "parallel" if st["combine"] == "parallel" else "concat")), cal,
                             locals().get("cal_single"))
      y = layer(x)
    elif mid == "multiunit":
      k = k_units
      # (n, k) per feature -> (n, k, d): one lattice unit per calibrator unit.
      cols = [keras.layers.Reshape((k, 1))(c) for c in cal]
      x = keras.layers.Concatenate(axis=2)(cols) if len(cols) > 1 else cols[0]
      if st["multiunit_kfl"]:
        inner = tfl.layers.KroneckerFactoredLattice(
            lattice_sizes=feats[0]["lattice_size"], units=k,
            num_terms=st["num_terms"], monotonicities=monos,
            output_min=st["output_min"], output_max=st["output_max"],
            clip_inputs=st["clip_inputs"], name="mid_kfl_units")
      else:
        inner = tfl.layers.Lattice(
            lattice_sizes=[f["lattice_size"] for f in feats], units=k,
            monotonicities=monos, output_min=st["output_min"],
            output_max=st["output_max"], clip_inputs=st["clip_inputs"],
            interpolation=st["interpolation"], name="mid_lattice_units")
      z = inner(x)
      bounded = (st["output_min"] is not None or st["output_max"] is not None)
      y = tfl.layers.Linear(
          num_input_dims=k, monotonicities=[1] * k,
          normalization_order=1 if bounded else None, use_bias=False,
          kernel_initializer=keras.initializers.Constant(1.0 / k),
          name="mid_average")(z)
    else:
      r = st["rtl"]
      groups = {}
      for c, m in zip(cal, monos):
        groups.setdefault("increasing" if m else "unconstrained", []).append(c)
      rtl_in = {k: (keras.layers.Concatenate(axis=1)(v) if len(v) > 1 else v[0])
                for k, v in groups.items()}
      two = bool(r.get("two_layer"))
      L = feats[0]["lattice_size"]
      layer = tfl.layers.RTL(
          num_lattices=r["num_lattices"],
          lattice_rank=r["lattice_rank"],
          lattice_size=L,
          output_min=0.0 if two else st["output_min"],
          output_max=(L - 1.0) if two else st["output_max"],
          separate_outputs=two,
          random_seed=r["random_seed"],
          clip_inputs=st["clip_inputs"],
          interpolation=st["interpolation"],
          parameterization=r["parameterization"],
          num_terms=st["num_terms"],
          avoid_intragroup_interaction=r["avoid_intragroup_interaction"],
          monotonic_at_every_step=st["monotonic_at_every_step"],
          average_outputs=not two,
          kernel_initializer=("kfl_random_monotonic_initializer"
                              if r["parameterization"] == "kronecker_factored"
                              else "random_monotonic_initializer"),
          name="mid_rtl")
      y = layer(rtl_in)
      if two:
        # Stacked RTL layers: the first one labels its outputs
        # 'increasing' / 'unconstrained' for the second one.
        n1 = r["num_lattices"]
        y = tfl.layers.RTL(
            num_lattices=max(2, (n1 + 1) // 2 + 1),
            lattice_rank=2,
            lattice_size=L,
            output_min=st["output_min"],
            output_max=st["output_max"],
            random_seed=r["random_seed"] + 1,
            clip_inputs=st["clip_inputs"],
            interpolation=st["interpolation"],
            parameterization=r["parameterization"],
            num_terms=st["num_terms"],
            monotonic_at_every_step=st["monotonic_at_every_step"],
            average_outputs=True,
            kernel_initializer=("kfl_random_monotonic_initializer"
                                if r["parameterization"] ==
                                "kronecker_factored" else
                                "random_monotonic_initializer"),
            name="top_rtl")(y)
    if st["out_calib"]:
      lo, hi = st["output_min"], st["output_max"]
      if lo is not None and hi is not None:
        kps = np.linspace(lo, hi, st["out_calib_keypoints"]).tolist()
      else:
        base = lo if lo is not None else (hi - 4.0 if hi is not None else -2.0)
        kps = np.linspace(base, base + 4.0, st["out_calib_keypoints"]).tolist()
      y = tfl.layers.PWLCalibration(
          input_keypoints=[_r(k, 4) for k in kps],
          output_min=lo, output_max=hi, monotonicity=1,
          name="out_calib")(y)
    return keras.Model(inputs=ins, outputs=y)

  @staticmethod
  def _join(keras, st, cal, single):
    if st["combine"] == "parallel":
      return single
    if st["combine"] in ("list", "parallel_list"):
      return list(cal)
    return keras.layers.Concatenate(axis=1)(cal) if len(cal) > 1 else cal[0]

  @staticmethod
  def features(spec):
    feats = oracle_features(spec["features"])
    for f, src in zip(feats, spec["features"]):
      if src.get("as_float"):
        f["as_float"] = True
    return feats

  @staticmethod
  def bounds(spec):
    return spec["stack"]["output_min"], spec["stack"]["output_max"]

  @staticmethod
  def deferred_strictness(spec):
    """True if strict monotonicity is only promised after finalize."""
    st = spec["stack"]
    return (st["mid"] in ("lattice", "rtl") and
            not st["monotonic_at_every_step"])

  @staticmethod
  def simplifications(spec):
    out = []
    st = spec["stack"]
    for key, val in (("out_calib", False), ("combine", "concat"),
                     ("interpolation", "hypercube"),
                     ("monotonic_at_every_step", True),
                     ("kernel_init", "default")):
      if st.get(key) != val:
        st2 = dict(st)
        st2[key] = val
        out.append(dict(spec, stack=st2))
    feats = spec["features"]
    if len(feats) > 1 and st["mid"] != "rtl":
      for i in range(len(feats)):
        out.append(dict(spec, features=feats[:i] + feats[i + 1:]))
    for i, f in enumerate(feats):
      if f["type"] == "num":
        for key, val in (("convexity", 0), ("keypoints_type", "fixed"),
                         ("clamp_min", False), ("clamp_max", False),
                         ("default_value", None),
                         ("always_monotonic", False)):
          if f.get(key) != val and f.get(key):
            f2 = dict(f)
            f2[key] = val
            if key == "default_value":
              f2.pop("missing_output_frac", None)
            out.append(dict(spec, features=feats[:i] + [f2] + feats[i + 1:]))
    return out


BUILDERS["stack"] = StackBuilder


# ---------------------------------------------------------------------------
# Single tfl layers with non-default constructor arguments (C11 only)


def _plain_inputs(keras, tf, n, prefix="x"):
  return [keras.Input(shape=(1,), dtype=tf.float32, name="%s%d" % (prefix, i))
          for i in range(n)]


def _num_feature(name, lo, hi, missing=None, strict=False):
  return {"name": name, "type": "num", "direction": 0,
          "keypoints": [float(lo), float(hi)], "missing": missing,
          "strict_range": strict}


def _lattice_feature(name, size, clip, simplex=False):
  """Out-of-range probes are legitimate when the layer clips, and also when it
  extrapolates multilinearly; unclipped simplex interpolation is only defined
  inside the lattice."""
  if clip or not simplex:
    return _num_feature(name, -0.5, size - 0.5)
  return _num_feature(name, 0.0, size - 1.0, strict=True)


def _reg_arg(s, names, dims=None, p=0.5):
  """A kernel_regularizer argument in one of the accepted spellings."""
  if not s.chance(p):
    return None
  name = s.choice(names)
  l1 = _r(s.log10_uniform(-4, -1), 5)
  l2 = _r(s.log10_uniform(-4, -1), 5)
  if dims and s.chance(0.5):
    # Per-dimension amounts; sometimes all equal (a list still means
    # something else than a scalar for the torsion regularizer).
    if s.chance(0.4):
      l1 = [l1] * dims
      l2 = [l2] * dims
    else:
      l1 = [_r(l1 * (i + 1), 5) for i in range(dims)]
  style = s.choice(["tuple", "list1", "list2"])
  if style == "tuple":
    return {"style": "tuple", "items": [[name, l1, l2]]}
  if style == "list1":
    return {"style": "list", "items": [[name, l1, l2]]}
  other = s.choice(names)
  return {"style": "list", "items": [[name, l1, l2], [other, l2, 0.0]]}


def _reg_build(arg):
  if arg is None:
    return None
  items = [tuple(tuple(x) if isinstance(x, list) and i == -1 else x
                 for i, x in enumerate(it)) for it in arg["items"]]
  items = [(it[0], it[1], it[2]) for it in arg["items"]]
  if arg["style"] == "tuple":
    return items[0]
  return items


class LayerBuilder(object):
  NAME = "layer"
  WEIGHT = {"C03": 0.0, "C11": 1.2}

  KINDS = ("pwl", "cat", "lattice", "linear", "kfl", "rtl", "cdf", "parallel")

  @staticmethod
  def gen(s, tier):
    kind = s.weighted([("pwl", 3), ("cat", 2), ("lattice", 4), ("linear", 3),
                       ("kfl", 2), ("rtl", 3), ("cdf", 2), ("parallel", 2)])
    a = {}
    if kind == "pwl":
      a["input_keypoints"] = gen_keypoints(s)
      if len(a["input_keypoints"]) < 3:
        # (is_cyclic needs at least three keypoints.)
        a["input_keypoints"] = gen_keypoints(s, 3)
      a["units"] = s.weighted([(1, 3), (2, 2), (3, 1)])
      a["keypoints_numpy"] = s.sub("kp-numpy").chance(0.4)
      # Theme first, so that rarely compatible options (cyclic needs neither
      # monotonicity nor convexity) are exercised often enough.
      theme = s.weighted([("any", 4), ("cyclic", 2)])
      mono = s.choice([0, 1, -1, "none", "increasing", "decreasing"])
      a["convexity"] = s.choice([0, 0, 1, -1, "convex", "concave", "none"])
      if theme == "cyclic":
        mono = s.choice([0, "none"])
        a["convexity"] = s.choice([0, "none"])
      a["monotonicity"] = mono
      is_mono = mono not in (0, "none")
      a["is_cyclic"] = bool(not is_mono and a["convexity"] in (0, "none") and
                            (theme == "cyclic" or s.chance(0.3)))
      omin, omax = gen_bounds(s)
      a["output_min"], a["output_max"] = omin, omax
      a["clamp_min"] = bool(is_mono and omin is not None and s.chance(0.3))
      a["clamp_max"] = bool(is_mono and omax is not None and s.chance(0.3))
      a["kernel_initializer"] = ("equal_heights" if a["is_cyclic"] else
                                 s.choice(["equal_heights", "equal_slopes"]))
      a["kernel_regularizer"] = _reg_arg(s, ["laplacian", "hessian", "wrinkle"],
                                         p=0.8 if theme == "cyclic" else 0.5)
      a["impute_missing"] = s.chance(0.5)
      a["missing_input_value"] = (_r(a["input_keypoints"][0] - 1.0, 2)
                                  if a["impute_missing"] else None)
      a["missing_output_value"] = None
      if a["impute_missing"] and s.chance(0.5):
        lo = omin if omin is not None else (
            omax - 2.0 if omax is not None else -1.0)
        hi = omax if omax is not None else lo + 2.0
        a["missing_output_value"] = _r(s.uniform(lo, hi), 3)
      a["num_projection_iterations"] = s.choice([8, 4, 12])
      a["split_outputs"] = bool(a["units"] > 1 and s.chance(0.4))
      a["input_keypoints_type"] = (
          "learned_interior" if a["convexity"] in (0, "none") and
          not a["is_cyclic"] and s.chance(0.3) else "fixed")
    elif kind == "cat":
      a["num_buckets"] = s.integer(2, 6)
      a["units"] = s.weighted([(1, 3), (2, 2), (3, 1)])
      omin, omax = gen_bounds(s)
      a["output_min"], a["output_max"] = omin, omax
      f = gen_categorical_feature(s.sub("pairs"), "c", 2)
      nb = a["num_buckets"]
      a["monotonicities"] = ([p for p in f["monotonicity"]
                              if p[0] < nb and p[1] < nb] or None
                             if f["monotonicity"] else None)
      a["kernel_initializer"] = s.choice(["uniform", "constant"])
      a["l1l2"] = s.chance(0.4)
      a["default_input_value"] = -1 if s.chance(0.4) else None
      a["split_outputs"] = bool(a["units"] > 1 and s.chance(0.4))
    elif kind == "lattice":
      # A theme guarantees that each optional 2D constraint is actually
      # exercised (drawn independently they almost never fit the dims).
      theme = s.weighted([("plain", 3), ("unimodal", 2), ("joint_unimodal", 2),
                          ("trust", 3), ("dominance", 3), ("joint_mono", 2)])
      a["theme"] = theme
      dims = s.integer(1, 3) if theme in ("plain", "unimodal") else (
          s.integer(2, 3))
      sizes = [s.weighted([(2, 4), (3, 3), (4, 1)]) for _ in range(dims)]
      monos = [int(s.chance(0.5)) for _ in range(dims)]
      if theme == "unimodal":
        monos[0] = 0
        sizes[0] = max(sizes[0], 3)
      elif theme == "joint_unimodal":
        monos[0] = monos[1] = 0
        sizes[0], sizes[1] = max(sizes[0], 3), max(sizes[1], 3)
      elif theme == "trust":
        monos[0], monos[1] = 1, 0
      elif theme == "dominance":
        monos[0] = monos[1] = 1
      elif theme == "joint_mono":
        monos[0] = monos[1] = 0
      a["lattice_sizes"] = sizes
      a["units"] = s.weighted([(1, 3), (2, 2)])
      a["monotonicities"] = s.choice([
          monos, ["increasing" if m else "none" for m in monos]])
      a["unimodalities"] = None
      a["joint_unimodalities"] = None
      a["edgeworth_trusts"] = None
      a["trapezoid_trusts"] = None
      a["monotonic_dominances"] = None
      a["range_dominances"] = None
      a["joint_monotonicities"] = None
      if theme == "unimodal":
        un = [0] * dims
        un[0] = s.choice([1, -1, "valley", "peak"])
        a["unimodalities"] = un
      elif theme == "joint_unimodal":
        a["joint_unimodalities"] = {
            "single": s.chance(0.5),
            "value": [[0, 1], s.choice(["valley", "peak"])]}
      elif theme == "trust":
        t = [0, 1, s.choice(["positive", "negative", 1, -1])]
        key = s.choice(["edgeworth_trusts", "trapezoid_trusts"])
        a[key] = {"single": s.chance(0.5), "value": [t]}
        if dims == 3 and not monos[2] and s.chance(0.4):
          other = ("trapezoid_trusts" if key == "edgeworth_trusts" else
                   "edgeworth_trusts")
          a[other] = {"single": False, "value": [[0, 2, s.choice([1, -1])]]}
      elif theme == "dominance":
        key = s.choice(["monotonic_dominances", "range_dominances"])
        pairs = [[0, 1]]
        if dims == 3 and monos[2] and s.chance(0.5):
          pairs.append([0, 2])
        a[key] = {"single": len(pairs) == 1 and s.chance(0.5), "value": pairs}
      elif theme == "joint_mono":
        a["joint_monotonicities"] = {"single": s.chance(0.5),
                                     "value": [[0, 1]]}
      omin, omax = init_safe_bounds(*gen_bounds(s))
      a["output_min"], a["output_max"] = omin, omax
      a["num_projection_iterations"] = s.choice([10, 5, 15])
      a["monotonic_at_every_step"] = not s.chance(0.25)
      a["clip_inputs"] = s.chance(0.6)
      a["interpolation"] = s.choice(["hypercube", "simplex"])
      inits = ["random_uniform_or_linear_initializer", "linear_initializer"]
      if theme not in ("unimodal", "joint_unimodal"):
        inits.append("random_monotonic_initializer")
      a["kernel_initializer"] = s.choice(inits)
      a["kernel_regularizer"] = _reg_arg(s, ["torsion", "laplacian"], dims)
    elif kind == "linear":
      n = s.integer(1, 4)
      a["num_input_dims"] = n
      a["units"] = s.weighted([(1, 3), (2, 2)])
      monos = [s.choice([0, 1, -1]) for _ in range(n)]
      a["monotonicities"] = s.choice([
          monos, [{0: "none", 1: "increasing", -1: "decreasing"}[m]
                  for m in monos]])
      inc = [d for d in range(n) if monos[d] == 1]
      a["monotonic_dominances"] = None
      a["range_dominances"] = None
      a["input_min"] = None
      a["input_max"] = None
      if len(inc) >= 2 and s.chance(0.5):
        if s.chance(0.5):
          a["monotonic_dominances"] = {"single": False,
                                       "value": [[inc[0], inc[1]]]}
        else:
          a["range_dominances"] = {"single": False,
                                   "value": [[inc[0], inc[1]]]}
          a["input_min"] = [0.0] * n
          a["input_max"] = [_r(s.uniform(0.5, 3.0), 2) for _ in range(n)]
      elif s.chance(0.2):
        a["input_min"] = [None if s.chance(0.3) else -1.0 for _ in range(n)]
        a["input_max"] = [None if s.chance(0.3) else 2.0 for _ in range(n)]
      a["use_bias"] = s.chance(0.6)
      a["normalization_order"] = s.choice([None, None, 1, 2])
      a["l1l2_kernel"] = s.chance(0.3)
      a["l1l2_bias"] = bool(a["use_bias"] and s.chance(0.3))
    elif kind == "kfl":
      dims = s.integer(1, 3)
      a["dims"] = dims
      a["lattice_sizes"] = s.weighted([(2, 4), (3, 3), (4, 1)])
      a["units"] = s.weighted([(1, 3), (2, 2)])
      a["num_terms"] = s.integer(1, 4)
      monos = [int(s.chance(0.5)) for _ in range(dims)]
      a["monotonicities"] = s.choice([
          None, monos, ["increasing" if m else "none" for m in monos]])
      omin, omax = gen_bounds(s)
      a["output_min"], a["output_max"] = omin, omax
      a["clip_inputs"] = s.chance(0.6)
      a["seeded_init"] = s.chance(0.5)
      a["init_seed"] = s.choice([0, 0, s.integer(1, 999)])
    elif kind == "rtl":
      a["n_unconstrained"] = s.integer(0, 4)
      a["n_increasing"] = s.integer(0, 4)
      if a["n_unconstrained"] + a["n_increasing"] == 0:
        a["n_increasing"] = 2
      n_in = a["n_unconstrained"] + a["n_increasing"]
      a["lattice_rank"] = s.integer(1, 3)
      a["num_lattices"] = s.integer(1, 4)
      while a["num_lattices"] * a["lattice_rank"] < n_in:
        a["num_lattices"] += 1
      a["lattice_size"] = s.weighted([(2, 4), (3, 2)])
      omin, omax = init_safe_bounds(*gen_bounds(s))
      a["output_min"], a["output_max"] = omin, omax
      a["init_bounds"] = s.chance(0.3)
      a["separate_outputs"] = s.chance(0.3)
      a["random_seed"] = s.integer(0, 10000)
      a["num_projection_iterations"] = s.choice([10, 6])
      a["monotonic_at_every_step"] = not s.chance(0.2)
      a["clip_inputs"] = s.chance(0.7)
      a["parameterization"] = s.choice(["all_vertices", "all_vertices",
                                        "kronecker_factored"])
      a["interpolation"] = ("hypercube" if a["parameterization"] ==
                            "kronecker_factored" else
                            s.choice(["hypercube", "simplex"]))
      a["num_terms"] = s.integer(1, 3)
      a["avoid_intragroup_interaction"] = s.chance(0.6)
      a["kernel_regularizer"] = (
          _reg_arg(s, ["torsion", "laplacian"]) if a["parameterization"] ==
          "all_vertices" else None)
      a["average_outputs"] = bool(not a["separate_outputs"] and s.chance(0.4))
      a["input_style"] = s.choice(["tensor", "list", "grouped", "grouped"])
    elif kind == "cdf":
      a["dims"] = s.choice([1, 2, 4])
      a["num_keypoints"] = s.integer(2, 6)
      a["sparsity_factor"] = s.choice([1, 1, 2]) if a["dims"] % 2 == 0 else 1
      a["units"] = s.choice([1, 2, 4]) if a["sparsity_factor"] == 1 else (
          s.choice([2, 4]))
      a["activation"] = s.choice(["relu6", "sigmoid"])
      a["reduction"] = s.choice(["mean", "geometric_mean", "none"])
      a["input_scaling_init"] = s.choice([None, 2.0, 0.5])
      a["input_scaling_type"] = s.choice(["fixed", "learned_shared",
                                          "learned_per_input"])
      a["input_scaling_monotonicity"] = s.choice(["increasing", "none", 1, 0])
    else:  # parallel
      n = s.integer(1, 3)
      subs = []
      for i in range(n):
        fs = s.sub("sub", i)
        if fs.chance(0.35):
          f = gen_categorical_feature(fs, "p%d" % i, 2)
          f["cat_init"] = "uniform"
        else:
          f = gen_numeric_feature(fs, "p%d" % i, 2, False)
          f["clamp_min"] = f["clamp_max"] = False
        subs.append(f)
      a["subs"] = subs
      a["single_output"] = s.chance(0.6)
      omin, omax = gen_bounds(s)
      a["output_min"], a["output_max"] = omin, omax
    # Sequential variant: one (n, d) tensor input, model unbuilt until first
    # called - the shape in which user code loads TF-format checkpoints into a
    # freshly constructed model (deferred restoration).
    ok = kind in ("pwl", "lattice", "linear", "kfl", "cdf", "parallel") or (
        kind == "rtl" and a["n_increasing"] == 0)
    a["sequential"] = bool(ok and s.sub("sequential").chance(0.35))
    if a["sequential"]:
      for key in ("split_outputs", "separate_outputs"):
        if key in a:
          a[key] = False
      if kind == "parallel":
        a["single_output"] = True
        for f in a["subs"]:
          f["as_float"] = True
      if kind == "rtl":
        a["input_style"] = "tensor"
    return {"builder": "layer", "kind": kind, "args": a}

  @staticmethod
  def _maybe_single(v):
    """Constraint lists may be given as a single tuple."""
    if v is None:
      return None
    items = []
    for it in v["value"]:
      items.append(tuple(tuple(x) if isinstance(x, list) else x for x in it))
    return items[0] if v["single"] else items

  @staticmethod
  def build(spec, defer=False):
    """defer=True (sequential specs only): returns an *unbuilt* Sequential,
    as user code would before loading a TF-format checkpoint."""
    tf, keras, tfl = env.mods()
    kind, a = spec["kind"], spec["args"]
    ms = LayerBuilder._maybe_single
    seq = bool(a.get("sequential"))
    captured = []

    def call(layer, x):
      if seq:
        captured.append(layer)
        return None
      return layer(x)

    if kind == "pwl":
      ins = _plain_inputs(keras, tf, 1)
      layer = tfl.layers.PWLCalibration(
          input_keypoints=(np.asarray(a["input_keypoints"], dtype=np.float64)
                           if a.get("keypoints_numpy") else
                           list(a["input_keypoints"])), units=a["units"],
          output_min=a["output_min"], output_max=a["output_max"],
          clamp_min=a["clamp_min"], clamp_max=a["clamp_max"],
          monotonicity=a["monotonicity"], convexity=a["convexity"],
          is_cyclic=a["is_cyclic"], kernel_initializer=a["kernel_initializer"],
          kernel_regularizer=_reg_build(a["kernel_regularizer"]),
          impute_missing=a["impute_missing"],
          missing_input_value=a["missing_input_value"],
          missing_output_value=a["missing_output_value"],
          num_projection_iterations=a["num_projection_iterations"],
          split_outputs=a["split_outputs"],
          input_keypoints_type=a["input_keypoints_type"], name="the_layer")
      y = call(layer, ins[0])
    elif kind == "cat":
      ins = [keras.Input(shape=(1,), dtype=tf.int32, name="x0")]
      layer = tfl.layers.CategoricalCalibration(
          num_buckets=a["num_buckets"], units=a["units"],
          output_min=a["output_min"], output_max=a["output_max"],
          monotonicities=([tuple(p) for p in a["monotonicities"]]
                          if a["monotonicities"] else None),
          kernel_initializer=a["kernel_initializer"],
          kernel_regularizer=(keras.regularizers.l1_l2(0.01, 0.001)
                              if a["l1l2"] else None),
          default_input_value=a["default_input_value"],
          split_outputs=a["split_outputs"], name="the_layer")
      x = ins[0]
      if a["units"] > 1:
        x = keras.layers.Concatenate(axis=1)([x] * a["units"])
      y = call(layer, x)
    elif kind == "lattice":
      dims = len(a["lattice_sizes"])
      ins = _plain_inputs(keras, tf, dims)
      ju = a["joint_unimodalities"]
      ju_arg = None
      if ju is not None:
        one = (tuple(ju["value"][0]), ju["value"][1])
        ju_arg = one if ju["single"] else [one]
      layer = tfl.layers.Lattice(
          lattice_sizes=list(a["lattice_sizes"]), units=a["units"],
          monotonicities=a["monotonicities"], unimodalities=a["unimodalities"],
          edgeworth_trusts=ms(a["edgeworth_trusts"]),
          trapezoid_trusts=ms(a["trapezoid_trusts"]),
          monotonic_dominances=ms(a["monotonic_dominances"]),
          range_dominances=ms(a["range_dominances"]),
          joint_monotonicities=ms(a["joint_monotonicities"]),
          joint_unimodalities=ju_arg,
          output_min=a["output_min"], output_max=a["output_max"],
          num_projection_iterations=a["num_projection_iterations"],
          monotonic_at_every_step=a["monotonic_at_every_step"],
          clip_inputs=a["clip_inputs"], interpolation=a["interpolation"],
          kernel_initializer=a["kernel_initializer"],
          kernel_regularizer=_reg_build(a["kernel_regularizer"]),
          name="the_layer")
      x = keras.layers.Concatenate(axis=1)(ins) if dims > 1 else ins[0]
      if a["units"] > 1:
        x = keras.layers.RepeatVector(a["units"])(x)
      y = call(layer, x)
    elif kind == "linear":
      n = a["num_input_dims"]
      ins = _plain_inputs(keras, tf, n)
      layer = tfl.layers.Linear(
          num_input_dims=n, units=a["units"],
          monotonicities=a["monotonicities"],
          monotonic_dominances=ms(a["monotonic_dominances"]),
          range_dominances=ms(a["range_dominances"]),
          input_min=a["input_min"], input_max=a["input_max"],
          use_bias=a["use_bias"],
          normalization_order=a["normalization_order"],
          kernel_regularizer=(keras.regularizers.l1_l2(0.01, 0.002)
                              if a["l1l2_kernel"] else None),
          bias_regularizer=(keras.regularizers.l2(0.01)
                            if a["l1l2_bias"] else None),
          name="the_layer")
      x = keras.layers.Concatenate(axis=1)(ins) if n > 1 else ins[0]
      if a["units"] > 1:
        x = keras.layers.RepeatVector(a["units"])(x)
      y = call(layer, x)
    elif kind == "kfl":
      dims = a["dims"]
      ins = _plain_inputs(keras, tf, dims)
      kw = {}
      if a["seeded_init"]:
        kw["kernel_initializer"] = (
            tfl.kronecker_factored_lattice_layer.KFLRandomMonotonicInitializer(
                monotonicities=a["monotonicities"], init_min=0.25,
                init_max=1.25, seed=a["init_seed"]))
      layer = tfl.layers.KroneckerFactoredLattice(
          lattice_sizes=a["lattice_sizes"], units=a["units"],
          num_terms=a["num_terms"], monotonicities=a["monotonicities"],
          output_min=a["output_min"], output_max=a["output_max"],
          clip_inputs=a["clip_inputs"], name="the_layer", **kw)
      x = keras.layers.Concatenate(axis=1)(ins) if dims > 1 else ins[0]
      if a["units"] > 1:
        x = keras.layers.RepeatVector(a["units"])(x)
      y = call(layer, x)
    elif kind == "rtl":
      nu, ni = a["n_unconstrained"], a["n_increasing"]
      ins = _plain_inputs(keras, tf, nu + ni)
      d = {}
      for key, group in (("unconstrained", ins[:nu]), ("increasing", ins[nu:])):
        if not group:
          continue
        if a["input_style"] == "list" and len(group) > 1:
          d[key] = list(group)
        elif a["input_style"] == "grouped" and len(group) > 2:
          # Multi-unit input groups: [(n, 2), (n, rest)].
          d[key] = [keras.layers.Concatenate(axis=1)(group[:2]),
                    (keras.layers.Concatenate(axis=1)(group[2:])
                     if len(group) > 3 else group[2])]
        elif a["input_style"] == "grouped" and len(group) == 2:
          d[key] = [keras.layers.Concatenate(axis=1)(group)]
        else:
          d[key] = (keras.layers.Concatenate(axis=1)(group)
                    if len(group) > 1 else group[0])
      kw = {}
      if a["init_bounds"]:
        kw.update(init_min=0.0, init_max=1.0)
      layer = tfl.layers.RTL(
          num_lattices=a["num_lattices"], lattice_rank=a["lattice_rank"],
          lattice_size=a["lattice_size"], output_min=a["output_min"],
          output_max=a["output_max"],
          separate_outputs=a["separate_outputs"],
          random_seed=a["random_seed"],
          num_projection_iterations=a["num_projection_iterations"],
          monotonic_at_every_step=a["monotonic_at_every_step"],
          clip_inputs=a["clip_inputs"], interpolation=a["interpolation"],
          parameterization=a["parameterization"], num_terms=a["num_terms"],
          avoid_intragroup_interaction=a["avoid_intragroup_interaction"],
          kernel_initializer=("kfl_random_monotonic_initializer"
                              if a["parameterization"] == "kronecker_factored"
                              else "random_monotonic_initializer"),
          kernel_regularizer=_reg_build(a["kernel_regularizer"]),
          average_outputs=a["average_outputs"], name="the_layer", **kw)
      y = call(layer, d)
      if isinstance(y, dict):
        y = [y[k] for k in sorted(y)]
    elif kind == "cdf":
      dims = a["dims"]
      ins = _plain_inputs(keras, tf, dims)
      layer = tfl.layers.CDF(
          num_keypoints=a["num_keypoints"], units=a["units"],
          activation=a["activation"], reduction=a["reduction"],
          input_scaling_init=a["input_scaling_init"],
          input_scaling_type=a["input_scaling_type"],
          input_scaling_monotonicity=a["input_scaling_monotonicity"],
          sparsity_factor=a["sparsity_factor"], name="the_layer")
      x = keras.layers.Concatenate(axis=1)(ins) if dims > 1 else ins[0]
      y = call(layer, x)
      if a["reduction"] == "none" and not seq:
        y = keras.layers.Flatten()(y)
    else:
      subs = a["subs"]
      ins = _plain_inputs(keras, tf, len(subs))
      layer = tfl.layers.ParallelCombination(
          single_output=a["single_output"], name="the_layer")
      for i, f in enumerate(subs):
        layer.append(_calibrator(tfl, keras, f, a["output_min"],
                                 a["output_max"], "sub_%d" % i))
      x = keras.layers.Concatenate(axis=1)(ins) if len(subs) > 1 else ins[0]
      y = call(layer, x)
    if seq:
      layers = []
      if kind in ("lattice", "linear", "kfl") and a.get("units", 1) > 1:
        layers.append(keras.layers.RepeatVector(a["units"]))
      layers.extend(captured)
      if kind == "cdf" and a["reduction"] == "none":
        layers.append(keras.layers.Flatten())
      model = keras.Sequential(layers)
      if not defer:
        model(tf.zeros([1, len(ins)]))
      return model
    if isinstance(y, (list, tuple)):
      y = keras.layers.Concatenate(axis=1)(list(y)) if len(y) > 1 else y[0]
    return keras.Model(inputs=ins, outputs=y)

  @staticmethod
  def features(spec):
    kind, a = spec["kind"], spec["args"]
    if kind == "pwl":
      kp = a["input_keypoints"]
      return [_num_feature("x0", kp[0], kp[-1], a["missing_input_value"])]
    if kind == "cat":
      return [{"name": "x0", "type": "cat", "num_buckets": a["num_buckets"],
               "pairs": [], "default": a["default_input_value"]}]
    if kind == "lattice":
      return [_lattice_feature("x%d" % i, sz, a["clip_inputs"],
                               a["interpolation"] == "simplex")
              for i, sz in enumerate(a["lattice_sizes"])]
    if kind == "linear":
      return [_num_feature("x%d" % i, -3.0, 3.0)
              for i in range(a["num_input_dims"])]
    if kind == "kfl":
      return [_lattice_feature("x%d" % i, a["lattice_sizes"], a["clip_inputs"])
              for i in range(a["dims"])]
    if kind == "rtl":
      return [_lattice_feature("x%d" % i, a["lattice_size"], a["clip_inputs"],
                               a["interpolation"] == "simplex")
              for i in range(a["n_unconstrained"] + a["n_increasing"])]
    if kind == "cdf":
      return [_num_feature("x%d" % i, -0.5, 1.5) for i in range(a["dims"])]
    out = []
    for i, f in enumerate(a["subs"]):
      if f["type"] == "cat":
        # ParallelCombination feeds floats; valid bucket ids only.
        out.append(_num_feature("x%d" % i, 0.0, f["num_buckets"] - 1.0))
        out[-1]["integral"] = True
        out[-1]["default"] = f["default_value"]
      else:
        out.append(_num_feature("x%d" % i, f["keypoints"][0],
                                f["keypoints"][-1], f["default_value"]))
    return out

  @staticmethod
  def bounds(spec):
    return None, None

  @staticmethod
  def can_defer(spec):
    return bool(spec["args"].get("sequential"))

  @staticmethod
  def to_model_inputs_spec(tf, inputs, spec):
    if spec["args"].get("sequential"):
      cols = [tf.cast(c, tf.float32) for c in inputs]
      return tf.concat(cols, axis=1) if len(cols) > 1 else cols[0]
    return inputs

  @staticmethod
  def simplifications(spec):
    return []


BUILDERS["layer"] = LayerBuilder


def seed_derived(spec):
  """True if the model's wiring is recomputed from a seed when it is built."""
  b = spec["builder"]
  if b == "premade":
    return spec["model"].get("structure") in ("random", "rtl")
  if b == "stack":
    return spec["stack"]["mid"] == "rtl"
  if b == "layer":
    return spec["kind"] == "rtl"
  return False


# ---------------------------------------------------------------------------
# Premade AggregateFunction (ragged inputs; C11 only)


def ragged_inputs(tf, inputs):
  """Turns flat (n, 1) columns into ragged rows of lengths 1,2,3,1,2,3,..."""
  n = int(inputs[0].shape[0])
  lens = []
  total = 0
  k = 0
  while total < n:
    l = min(1 + (k % 3), n - total)
    lens.append(l)
    total += l
    k += 1
  out = []
  for c in inputs:
    vals = tf.reshape(tf.convert_to_tensor(c), [-1])
    out.append(tf.RaggedTensor.from_row_lengths(vals, lens))
  return out


class AggregateBuilder(object):
  NAME = "aggregate"
  WEIGHT = {"C03": 0.0, "C11": 0.35}
  RAGGED = True

  @staticmethod
  def gen(s, tier):
    n_feat = s.integer(1, 3)
    feats = []
    for i in range(n_feat):
      fs = s.sub("feature", i)
      size = fs.weighted([(2, 5), (3, 3)])
      if fs.chance(0.3):
        f = gen_categorical_feature(fs, "f%d" % i, size)
      else:
        f = gen_numeric_feature(fs, "f%d" % i, size, allow_unimodal=True)
      feats.append(f)
    omin, omax = gen_bounds(s)
    m = {
        "middle_dimension": s.integer(1, 3),
        "middle_lattice_size": s.weighted([(2, 3), (3, 2)]),
        "middle_calibration": s.chance(0.5),
        "middle_calibration_num_keypoints": s.integer(2, 5),
        "middle_calibration_input_keypoints_type": s.choice(
            ["fixed", "learned_interior"]),
        "middle_lattice_interpolation": s.choice(["hypercube", "simplex"]),
        "aggregation_lattice_interpolation": s.choice(["hypercube", "simplex"]),
        "output_min": omin,
        "output_max": omax,
        "output_calibration": s.chance(0.4),
    }
    # (middle_calibration with the default middle_monotonicity=None is rejected
    # by the PWLCalibration constructor.)
    m["middle_monotonicity"] = (s.choice(["none", 0, "increasing", 1])
                                if m["middle_calibration"] else None)
    if not m["middle_calibration"]:
      # Without middle calibration the unclipped middle lattice is fed values
      # from [-1, 1]; simplex interpolation is undefined outside [0, size-1]
      # (raises inside tf.gather) - a totality matter (C16), not a round-trip
      # one, so such configurations are not generated here.
      m["middle_lattice_interpolation"] = "hypercube"
    n_init = s.integer(2, 4) if m["output_calibration"] else 2
    m["output_initialization"] = gen_output_init(s, omin, omax, n_init)
    m["output_calibration_input_keypoints_type"] = (
        "learned_interior" if m["output_calibration"] and s.chance(0.3)
        else "fixed")
    m["regularizers"] = [["calib_hessian", 0.0, 1e-3]] if s.chance(0.2) else []
    return {"builder": "aggregate", "features": feats, "model": m}

  @staticmethod
  def build(spec):
    _, _, tfl = env.mods()
    m = spec["model"]
    fcs = [feature_config(tfl, f) for f in spec["features"]]
    regs = [tfl.configs.RegularizerConfig(name=r[0], l1=r[1], l2=r[2])
            for r in m.get("regularizers", [])] or None
    cfg = tfl.configs.AggregateFunctionConfig(
        feature_configs=fcs,
        regularizer_configs=regs,
        middle_dimension=m["middle_dimension"],
        middle_lattice_size=m["middle_lattice_size"],
        middle_calibration=m["middle_calibration"],
        middle_calibration_num_keypoints=m["middle_calibration_num_keypoints"],
        middle_calibration_input_keypoints_type=m[
            "middle_calibration_input_keypoints_type"],
        middle_monotonicity=m["middle_monotonicity"],
        middle_lattice_interpolation=m["middle_lattice_interpolation"],
        aggregation_lattice_interpolation=m[
            "aggregation_lattice_interpolation"],
        output_min=m["output_min"],
        output_max=m["output_max"],
        output_calibration=m["output_calibration"],
        output_calibration_num_keypoints=len(m["output_initialization"]),
        output_initialization=list(m["output_initialization"]),
        output_calibration_input_keypoints_type=m[
            "output_calibration_input_keypoints_type"])
    return tfl.premade.AggregateFunction(cfg)

  @staticmethod
  def features(spec):
    feats = oracle_features(spec["features"])
    for f in feats:
      if f["type"] == "num":
        f["direction"] = 0  # no end-to-end promise is checked for this model
      else:
        f["pairs"] = []
    return feats

  @staticmethod
  def bounds(spec):
    return None, None

  @staticmethod
  def to_model_inputs(tf, inputs):
    return ragged_inputs(tf, inputs)

  @staticmethod
  def simplifications(spec):
    return []


BUILDERS["aggregate"] = AggregateBuilder
